#!/usr/bin/env python3
"""C31 driver: random histories of configuration and zone-file edits against a running quandaryd
(built from /repo's working tree), a SIGHUP after every step, observation over UDP.

  reload_driver.py <quandaryd> <out.ndjson> <seed> <nhistories> <scratch-dir>

Per step the driver logs what it did (configured zones, state of every zone file) and the raw
response octets to one TXT query per universe zone and one query below it; TLC decodes the
responses and judges them against Reload.tla (TraceReload.tla). A sentinel zone whose TXT record
carries the step number tells the driver when the reload has taken effect (the only thing the
driver reads out of a response is whether those octets occur in it)."""
import json
import os
import random
import shutil
import signal
import socket
import struct
import subprocess
import sys
import time

BIN, OUT, SEED, NHIST, SCRATCH = sys.argv[1], sys.argv[2], int(sys.argv[3]), int(sys.argv[4]), sys.argv[5]
# (G) optional sixth argument: histories of the MC_Reload state graph (tools/graph.py), one per line:
# [["Reload", [zone, ...] (configuration order), [zone, ...] (those whose file loads)], ...] with zones as label
# tuples top-down below test. (["p", "c"] = c.p.test.). The first NHIST of them are carried out instead of random ones.
PLANS = None
if len(sys.argv) > 6:
    def zname(t):
        return ".".join(reversed(t)) + ".test."
    PLANS = []
    with open(sys.argv[6]) as f:
        for line in f:
            if line.strip():
                PLANS.append([([zname(z) for z in st[1]], {zname(z) for z in st[2]}) for st in json.loads(line)])
    PLANS = PLANS[:NHIST]
    NHIST = len(PLANS)
rnd = random.Random(SEED)
UNIVERSE = ["p.test.", "c.p.test.", "d.c.p.test.", "q.test."]
SENT = "sentinel.test."


def free_port():
    s = socket.socket(socket.AF_INET, socket.SOCK_DGRAM)
    s.bind(("127.0.0.1", 0))
    p = s.getsockname()[1]
    s.close()
    return p


def wire(name):
    b = b""
    for l in name.rstrip(".").split("."):
        if l:
            b += bytes([len(l)]) + l.encode()
    return b + b"\0"


def query(port, name, qtype=16):
    q = struct.pack(">HHHHHH", rnd.randrange(65536), 0, 1, 0, 0, 0) + wire(name) + struct.pack(">HH", qtype, 1)
    for _ in range(3):
        s = socket.socket(socket.AF_INET, socket.SOCK_DGRAM)
        s.settimeout(5.0)
        try:
            s.sendto(q, ("127.0.0.1", port))
            return q, s.recvfrom(4096)[0]
        except (socket.timeout, ConnectionRefusedError):
            pass
        finally:
            s.close()
    return q, b""


def zone_text(z, v, kind):
    if kind == "invalid-syntax":
        return "this is not a zone file (\n"
    base = f"$ORIGIN {z}\n$TTL 60\n@ IN SOA ns admin {v} 60 60 60 60\n"
    if kind not in ("invalid-nons", "invalid-mixed"):      # parses, but validation fails: no apex NS
        base += "@ IN NS ns\n"
    if kind == "valid-warn":        # only a warning (in-zone MX without address): the zone loads
        base += "@ IN MX 10 mx\nmx IN TXT \"no address here\"\n"
    if kind == "invalid-mixed":     # an error (no apex NS) together with a warning (in-zone MX without address)
        base += "@ IN MX 10 mx\nmx IN TXT \"no address here\"\n"
    base += f"ns IN A 127.0.0.1\n@ IN TXT \"{z}:v{v}\"\n"
    return base


def main():
    os.makedirs(SCRATCH, exist_ok=True)
    with open(OUT, "w") as out:
        for h in range(NHIST):
            d = os.path.join(SCRATCH, f"h{SEED}_{h}")
            shutil.rmtree(d, ignore_errors=True)
            os.makedirs(d)
            clock = [1_600_000_000]

            def write(path, text):
                with open(path, "w") as f:
                    f.write(text)
                clock[0] += 10
                os.utime(path, (clock[0], clock[0]))

            port = free_port()
            version = 0
            proc = None
            out.write(json.dumps({"ev": "Reset"}) + "\n")
            files = {}          # zone -> {"k": "valid"|"invalid"|"missing", "v": version}: state of the zone's primary file
            # every zone also has an immutable backup file, written first (so it is OLDER than anything written later);
            # a step may point the zone's configuration entry at the backup and back ("restore from backup")
            baks = {}
            use_bak = {}
            for i, z in enumerate(UNIVERSE):
                write(os.path.join(d, z + "bak"), zone_text(z, 100 + i, "valid"))
                baks[z] = {"k": "valid", "v": 100 + i}
                use_bak[z] = False
            try:
                plan = PLANS[h] if PLANS is not None else None
                for step in range(len(plan) if plan is not None else rnd.randrange(2, 7)):
                    version += 1

                    def eff(z):      # the state of the file the configuration points at
                        return baks[z] if use_bak[z] else files.get(z, {"k": "missing", "v": 0})
                    if plan is not None:
                        cfgzones = list(plan[step][0])
                    else:
                        cfgzones = [z for z in UNIVERSE if rnd.random() < 0.6]
                        rnd.shuffle(cfgzones)          # the order of [[zones]] entries matters to the as-found code
                    for z in cfgzones:
                        if plan is None and rnd.random() < 0.2:
                            use_bak[z] = not use_bak[z]
                        cur = files.get(z)
                        if plan is not None:
                            # the model's step says which files load; how a file fails to load is drawn at random
                            choice = rnd.choice(["valid", "valid-warn"]) if z in plan[step][1] else rnd.choice(["invalid-syntax", "invalid-nons", "invalid-mixed", "missing"])
                        else:
                            choice = rnd.choice(["valid", "valid-warn", "invalid-syntax", "invalid-nons", "invalid-mixed", "missing", "unchanged"])
                        if choice == "unchanged" and cur is not None:
                            continue
                        if choice == "unchanged":
                            choice = "valid"
                        path = os.path.join(d, z + "zone")
                        if choice == "missing":
                            if os.path.exists(path):
                                os.remove(path)
                            files[z] = {"k": "missing", "v": 0}
                        else:
                            write(path, zone_text(z, version, choice))
                            files[z] = {"k": "valid", "v": version} if choice in ("valid", "valid-warn") else {"k": "invalid", "v": 0}
                    write(os.path.join(d, SENT + "zone"), zone_text(SENT, version, "valid"))
                    cfg = f'bind = "127.0.0.1:{port}"\n' + "".join(
                        f'[[zones]]\nname = "{z}"\npath = "{z}{"bak" if use_bak.get(z) else "zone"}"\n' for z in cfgzones + [SENT])
                    with open(os.path.join(d, "config.toml"), "w") as f:
                        f.write(cfg)
                    if proc is None:
                        proc = subprocess.Popen([BIN, "run", "--config", os.path.join(d, "config.toml")],
                                                stderr=subprocess.DEVNULL, stdout=subprocess.DEVNULL)
                    else:
                        proc.send_signal(signal.SIGHUP)
                    live = False
                    marker = f"{SENT}:v{version}".encode()
                    for _ in range(2400):          # up to 60 s
                        _, resp = query(port, SENT)
                        if marker in resp:
                            live = True
                            break
                        if proc.poll() is not None:
                            break
                        time.sleep(0.025)
                    obs = []
                    for z in UNIVERSE:
                        for qn in (z, "x." + z):
                            q, resp = query(port, qn)
                            obs.append({"q": list(wire(qn)), "req": list(q), "resp": list(resp)})
                    out.write(json.dumps({"ev": "Step", "config": [{"z": z, "w": list(wire(z))} for z in cfgzones],
                                          "files": [{"z": z, "w": list(wire(z)), "bak": use_bak[z], "k": eff(z)["k"], "v": eff(z)["v"]} for z in cfgzones],
                                          "live": live, "obs": obs}) + "\n")
            finally:
                if proc is not None:
                    proc.terminate()
                    try:
                        proc.wait(timeout=10)
                    except subprocess.TimeoutExpired:
                        proc.kill()
                shutil.rmtree(d, ignore_errors=True)


main()
