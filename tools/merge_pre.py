#!/usr/bin/env python3
"""Developer tool: copy first-try measurements (made in a worktree of /verif at the commit before a seeded change was
looked at) into seeded/<name>/results.json, marked with a "machinery" field.  merge_pre.py <old-worktree> <names...>"""
import json, os, sys
old, names = sys.argv[1], sys.argv[2:]
root = os.path.dirname(os.path.dirname(os.path.abspath(__file__)))
n = 0
for d in names:
    src = os.path.join(old, "seeded", d, "results.json")
    if not os.path.exists(src):
        print("no pre-measurement for", d)
        continue
    pre = json.load(open(src))
    for x in pre:
        x["machinery"] = "as it was before this change was looked at"
    dst = os.path.join(root, "seeded", d, "results.json")
    cur = json.load(open(dst)) if os.path.exists(dst) else []
    cur = [x for x in cur if x.get("machinery") != "as it was before this change was looked at"]
    json.dump(pre + cur, open(dst, "w"), indent=1)
    n += sum(1 for x in pre if x["detected"])
print(n, "detected at the first try of", len(names))
