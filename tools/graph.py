#!/usr/bin/env python3
"""(G) Turns a TLC state graph (-dump dot,actionlabels) into one history per transition:
for every edge (s, a, s') a shortest action sequence from the initial state ending in that edge.
Output: ND-JSON, one history per line: [[action, arg, ...], ...] with TLA+ values as JSON
(tuples -> lists, strings, ints)."""
import collections
import json
import re
import sys

sys.path.insert(0, __import__("os").path.dirname(__file__))


def parse_label(label, parse_tla):
    m = re.match(r"(\w+)(?:\((.*)\))?$", label, re.S)
    name, args = m.group(1), m.group(2)
    vals = parse_tla("<<" + args + ">>") if args else []
    return [name] + vals


def histories(dot_path, parse_tla, stride=1, max_len=None):
    edges = []
    init = None
    with open(dot_path) as f:
        for line in f:
            m = re.match(r'(-?\d+) -> (-?\d+) \[label="(.*?)",color', line)
            if m:
                edges.append((m.group(1), m.group(2), m.group(3).replace('\\"', '"')))
                continue
            m = re.match(r'(-?\d+) \[label=.*style = filled\]', line)
            if m and init is None:
                init = m.group(1)
    adj = collections.defaultdict(list)
    for a, b, l in edges:
        adj[a].append((b, l))
    path = {init: []}
    q = collections.deque([init])
    while q:
        s = q.popleft()
        for b, l in adj[s]:
            if b not in path:
                path[b] = path[s] + [l]
                q.append(b)
    cache = {}

    def pl(l):
        if l not in cache:
            cache[l] = parse_label(l, parse_tla)
        return cache[l]

    out = []
    for i, (a, b, l) in enumerate(edges):
        if a not in path or i % stride:
            continue
        h = [pl(x) for x in path[a]] + [pl(l)]
        if max_len and len(h) > max_len:
            continue
        out.append(h)
    return out, len(edges), len(path)


if __name__ == "__main__":
    import run
    hs, ne, ns = histories(sys.argv[1], run.parse_tla)
    with open(sys.argv[2], "w") as g:
        for h in hs:
            g.write(json.dumps(h) + "\n")
    print(f"{ns} states, {ne} edges, {len(hs)} histories", file=sys.stderr)
