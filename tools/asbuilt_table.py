#!/usr/bin/env python3
"""Developer tool: markdown table 'what each check runs' from MANIFEST.json and the committed evidence files."""
import json, os
ROOT = os.path.dirname(os.path.dirname(os.path.abspath(__file__)))
m = json.load(open(os.path.join(ROOT, "MANIFEST.json")))
print("| id | deciding method | (M) models checked in the quick tier (distinct states) | (V)/(G) trace stages of the quick tier (records) | quick wall time |")
print("|---|---|---|---|---|")
for c in m["checks"]:
    pid = c["property_id"]
    e = json.load(open(os.path.join(ROOT, "evidence", pid + ".json")))
    cov = e["coverage"]
    mc = "; ".join(f"{x['model'].split(' (')[0]}{' [must violate]' if x['expect_violation'] else ''} ({x['distinct_states']})" for x in cov.get("model_checking", [])) or "-"
    st = "; ".join(f"{k} ({v['records']})" for k, v in cov.get("stages", {}).items() if "records" in v) or "-"
    print(f"| {pid} | {c['technique']} | {mc} | {st} | {e['wall_s']:.0f} s |")
