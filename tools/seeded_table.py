#!/usr/bin/env python3
"""Developer tool: markdown table of the seeded changes and the latest outcome of each check run against them."""
import glob, json, os
ROOT = os.path.dirname(os.path.dirname(os.path.abspath(__file__)))
rows = []
for d in sorted(glob.glob(os.path.join(ROOT, "seeded", "*"))):
    if not os.path.isdir(d):
        continue
    meta = json.load(open(os.path.join(d, "meta.json")))
    res = json.load(open(os.path.join(d, "results.json"))) if os.path.exists(os.path.join(d, "results.json")) else []
    first, last = {}, {}
    for r in res:
        first.setdefault(r["check"], r)
        last[r["check"]] = r
    own = meta["property"]
    cells = []
    for c in sorted(last, key=lambda c: (c != own, c)):
        l, f = last[c], first[c]
        s = f"{c}: " + ("caught" if l["detected"] else "missed")
        if l["detected"] and not f["detected"]:
            s += " (missed before strengthening)"
        cells.append(s)
    note = f" *Note:* {meta['note']}." if meta.get("note") else ""
    rows.append(f"| `{os.path.basename(d)}` | {meta['needs_to_manifest']}{note} | {'; '.join(cells)} |")
print("| seeded change | what it needs in order to manifest | quick checks run against it (latest result) |")
print("|---|---|---|")
print("\n".join(rows))
