#!/usr/bin/env python3
"""Writes /verif/MANIFEST.json from the table below. Properties without an implemented
check (not in run.py's CHECKS) are listed under not_applicable with the reason "not built yet"
so the manifest is valid at every commit."""
import json
import os
import sys

sys.path.insert(0, os.path.dirname(os.path.abspath(__file__)))
import run  # noqa: E402

ROOT = os.path.dirname(os.path.dirname(os.path.abspath(__file__)))

TLC = "TLC 1.8.0 + CommunityModules Json/IOUtils; JDK HMAC override; harness encoders (a bug there yields a visible rejection, never a silent accept)"

P = {
    "C01": ("TLA+ total request oracle (Server!Respond) + TLC trace validation of recorded handle_message executions",
            "Every recorded execution (exhaustive tiny messages, truncations at every offset, mutated and random requests, weird catalogs, TSIG, RRL) must be a behaviour Server.tla allows; a panic is an outcome no spec action produces. Bounded/sampled conformance, not proof.",
            "3 C01"),
    "C02": ("independent TLA+ RFC 1035 decoder (Wire!DecodeMessage) applied by TLC to every recorded response",
            "Every response octet string of every server-level trace is decoded completely by a decoder written from RFC 1035 inside TLC; OPT/TSIG placement and RDATA validity are invariants evaluated per record.",
            "3 C02"),
    "C03": ("TLC trace validation against Server!Respond header/question rules",
            "All 2^16 flag words (thorough; strided in quick) x QDCOUNT 0/1/2 x mixed-case QNAMEs, short messages; the response header/question is checked bit for bit by the spec.",
            "3 C03"),
    "C04": ("TLC trace validation: size limit from Server!ScanAdd + UdpVsTcp relation on UDP/TCP response pairs",
            "Catalogs with fat RRsets/delegations/long names, random advertised and configured payload sizes; every UDP response is compared with the complete TCP response to the same request by the UdpVsTcp relation of the spec.",
            "3 C04"),
    "C05": ("TLA+ resolver (Resolve!Answer, written from RFC 1034/4592/6604/2308) judged by TLC on recorded query/response octets",
            "Random catalogs of nested zones; all names within two labels of the catalog's names x types; TLC decodes each response and compares RCODE, AA and the three sections with the specification's answer.",
            "3 C05"),
    "C06": ("TLC: (M) tree-walk lookup = declarative RFC 1034/4592 lookup for all small zones; (V) recorded zone-store lookups validated against Zone!LookupDecl",
            "Bounded model checking shows the walk of the node tree equals the declarative definition for every zone in scope; trace validation binds the real HashMapTreeZone to that definition on random zones x every nearby name x all option combinations.",
            "3 C06"),
    "C07": ("TLC trace validation against Server!Respond dispatch rules + Zone!CatLookup (longest suffix per class)",
            "Catalogs with nested entries in four classes and all three entry states; QNAME x QCLASS x QTYPE x all 16 opcodes; NOTIMP/REFUSED/SERVFAIL, empty sections and AA clear are checked per record by the spec.",
            "3 C07"),
    "C08": ("TLC trace validation against the sequential pre-scan of Server!Respond (first problem in message order wins)",
            "Mutated requests (every truncation, junk, count changes, misplaced/duplicated OPT/TSIG, flips); the spec prescribes FORMERR exactly where the property does and any other RCODE there is a rejection.",
            "3 C08"),
    "C09": ("TLC trace validation against Server!ScanAdd (OPT reached <=> OPT in response; version from raw TTL; owner)",
            "OPT records in every section/position with all version/flag bytes, owners, option TLVs and sizes; response OPT fields and BADVERS/FORMERR checked per record.",
            "3 C09"),
    "C10": ("TLC trace validation with Tsig.tla; request and response MACs recomputed in TLC through a JDK HMAC operator override",
            "Requests signed by the harness's own signer and broken variants; the spec applies the RFC 8945 checks in the server's order and recomputes both MACs independently of quandary's RustCrypto code.",
            "3 C10"),
    "C11": ("TLC trace validation: Tsig!Digest for request/response/subsequent modes + Tsig!Verdict vs the library's sign/verify results",
            "Messages built with the real Writer in all TSIG modes; every MAC equals the spec digest under the JDK HMAC; verification verdicts on truncated MACs, shifted clocks and single-bit corruptions at random covered positions must equal the spec's.",
            "3 C11"),
    "C12": ("TLC trace validation of writer operation sequences against the Writer state machine + independent decode of the finished octets",
            "Random op sequences over the public Writer API with the verif_state accessor; error kind and precedence, no-change-on-failure, truncation legality, and decode equality are spec conjuncts evaluated at every step.",
            "3 C12"),
    "C13": ("TLC trace validation: every compression pointer of every finished message checked by Wire-level pointer rules",
            "Same traces as C12 with name pools chosen to maximise pointer creation, plus server responses.",
            "3 C13"),
    "C14": ("TLC trace validation of Names!DecodeName / Chunk / Unc against exhaustive small buffers and structured large ones",
            "Exhaustive buffers over a 12-symbol alphabet at every start offset (length <= 3 quick, <= 4 thorough) plus random/structured buffers to 600 octets, four API functions each.",
            "3 C14"),
    "C15": ("TLC trace validation of reader call sequences against the Reader cursor machine + Wire decoder",
            "Valid and mutated messages driven by random sequences of reader calls; results equal the independent decoder, failures leave the cursor unchanged, panics are rejected records.",
            "3 C15"),
    "C16": ("TLC trace validation of Names!Render/ParseText/NameEq/CmpName (RFC 4034 6.1) against recorded API results",
            "Random names with arbitrary octets and boundary sizes, random text with escapes, pairs for equality/hash/order/subdomain.",
            "3 C16"),
    "C17": ("TLC trace validation of the relational Codes spec over all code values",
            "Every value of the four 16-bit code spaces (strided in quick), all 8-bit values, all mnemonics in upper/lower/mixed case, TYPEnnn/CLASSnnn forms.",
            "3 C17"),
    "C18": ("TLC trace validation of Rdata!Valid / Rdata!Read against recorded validate/read results",
            "22 class/type combinations, valid and near-valid RDATA, odd cursor/RDLENGTH pairs, compressed embedded names.",
            "3 C18"),
    "C19": ("TLC trace validation of Rdata!Equal / Rdata!Dedup (both argument orders logged)",
            "Pairs and triples from shared name pools with case variants, junk and truncations; RdataSet insertion order.",
            "3 C19"),
    "C20": ("TLC trace validation of zone add/iterate histories against the abstract Zone store",
            "Random add histories (in/out of zone, class/TTL mismatches, duplicates, case variants); every add result and the full iteration are predicted by the spec.",
            "3 C20"),
    "C21": ("TLC trace validation of Validate!Issues against recorded validate() results",
            "Random zones with delegations, glue in/out of child zones, siblings, wildcards, CNAMEs, both glue policies, three classes; the issue set is recomputed by the spec.",
            "3 C21"),
    "C22": ("TLC (M) tree-with-pruning refines abstract map + (G) one replay per transition of the state graph + (V) random histories",
            "The full state graph of MC_Catalog is dumped, every transition becomes a history replayed on the real catalog and validated by TraceCatalog; plus random histories in several classes.",
            "3 C22"),
    "C23": ("TLC trace validation of the zone-file context machine against the real parser on rendered files",
            "Random record lists rendered with random presentation choices; TLC recomputes owner/TTL/class/line for every record from the abstract lines.",
            "3 C23"),
    "C24": ("TLC trace validation: Yielded(items) with Rdata!Valid on fuzzed inputs",
            "Random octets, token soups and mutations of valid files; at most one error and it is last; every yielded record valid; panics/timeouts are rejected records.",
            "3 C24"),
    "C25": ("TLC trace validation of the include-stack semantics against the fs parser on random file trees",
            "Random include trees with origins, sub-directories, depth limits, missing files.",
            "3 C25"),
    "C26": ("TLC (M) implemented bucket = abstract token bucket; (V) hook events and outcomes of time-shifted sessions validated by TraceRrl",
            "Sessions with shifts from 0 to 10^9 s; every hook event (under the bucket lock) and visible outcome must be a step of the Rrl spec.",
            "3 C26"),
    "C27": ("TLC trace validation of Rrl!Key derivation and SubjectToRrl on recorded hook events",
            "Sources in/out of prefixes, mapped addresses, QNAME case variants, wildcard hits, categories, TCP and non-QUERY requests.",
            "3 C27"),
    "C28": ("TLC trace validation of concurrent bursts: per-bucket event chain + sent = min(n, limit)",
            "2-16 OS threads, bursts within one second, perturbing sink.",
            "3 C28"),
    "C29": ("TLC (M) exhaustive interleavings incl. timeouts/spurious wakeups with liveness; (V) hook traces of the unmodified thread.rs validated by TracePool",
            "The model finds the stranded-task race in the as_found variant and proves safety+liveness of the repaired algorithm in scope; real schedules under a perturbing sink are validated event by event.",
            "3 C29"),
    "C30": ("TLC (M) framing loop refines abstract stream; (V) both providers on loopback validated by TraceIo",
            "Random segmentation/pipelining/delays; per-request oracle is the direct handle_message result, itself validated by Server.tla.",
            "3 C30"),
    "C31": ("TLC (M) MC_Reload + (V) histories against the running quandaryd validated by TraceReload",
            "Random config/zone-file edit histories with SIGHUP after every step, observed over UDP.",
            "3 C31"),
    "C32": ("TLC (M) MC_Snapshot + (V) generation-stamped catalogs/keys with forced swaps validated by TraceSnapshot (window technique)",
            "Swaps forced between snapshot and use through the hook; every response must carry one generation from its window.",
            "3 C32"),
}

COMMON_NOTE = ("Trusted base: " + TLC + ". Scope: the inputs generated in this run (evidence file has the counts); "
               "undefined behaviour that neither panics nor changes an observable is out of reach.")


def main():
    props = [json.loads(l)["id"] for l in open(os.path.join(ROOT, "properties.jsonl"))]
    checks, na = [], []
    for pid in props:
        if pid in run.CHECKS and pid in P:
            tech, text, ref = P[pid]
            checks.append({
                "property_id": pid,
                "quick_cmd": f"python3 tools/run.py check {pid} --tier quick",
                "thorough_cmd": f"python3 tools/run.py check {pid} --tier thorough",
                "evidence_file": f"evidence/{pid}.json",
                "replay_cmd_template": "python3 tools/run.py replay {path}",
                "engine": "tlc-trace-validation",
                "level_claimed": {"category": "model_checking", "text": text, "design_ref": "DESIGN.md section " + ref},
                "level_note": COMMON_NOTE,
                "technique": tech,
            })
        else:
            na.append({"property_id": pid, "reason": "check not built yet in this commit (construction in progress; see DESIGN.md section 7) - the property is within reach of the technique and will be claimed"})
    hooks_commits = []
    try:
        import subprocess
        out = subprocess.run(["git", "-C", "/repo", "log", "--format=%H %s"], capture_output=True, text=True).stdout
        hooks_commits = [l.split()[0] for l in out.splitlines() if "verif_hooks" in l]
    except Exception:
        pass
    m = {
        "version": 1,
        "setup_cmd": "python3 tools/run.py setup",
        "hooks": {
            "guard": "cargo feature verif_hooks",
            "enable": "the harness crate depends on quandary with features [\"verif_hooks\", \"tokio\"] (path dependency on /repo); with the feature off the verif_emit! macro expands to nothing",
            "baseline_off_cmd": "cd /repo && cargo test --workspace --no-fail-fast --offline",
            "source_commits": hooks_commits,
            "add_only": True,
        },
        "engines": [
            {"name": "tlc-trace-validation", "path": "tools/run.py", "serves_properties": [c["property_id"] for c in checks],
             "kind_free_text": "Rust harness records executions of the real code as ND-JSON; TLC validates each record/session against the TLA+ specification in spec/ (trace specs in spec/trace, bounded model checking configs in spec/mc)"},
        ],
        "checks": checks,
        "not_applicable": na,
        "notes": "All checks: exit 0 held / 1 with VIOLATION line / 2 tool error. VERIF_SEED selects the random seed.",
    }
    json.dump(m, open(os.path.join(ROOT, "MANIFEST.json"), "w"), indent=1)
    print(f"{len(checks)} checks, {len(na)} not yet built")


if __name__ == "__main__":
    main()
