#!/usr/bin/env python3
"""Writes /verif/MANIFEST.json from the table below. Properties without an implemented
check (not in run.py's CHECKS) are listed under not_applicable with the reason "not built yet"
so the manifest is valid at every commit."""
import json
import os
import sys

sys.path.insert(0, os.path.dirname(os.path.abspath(__file__)))
import run  # noqa: E402

ROOT = os.path.dirname(os.path.dirname(os.path.abspath(__file__)))

TLC = "TLC 1.8.0 + CommunityModules Json/IOUtils; JDK HMAC override; harness encoders (a bug there yields a visible rejection, never a silent accept)"

P = {
    "C01": ("TLA+ total request oracle (Server!Respond) + TLC trace validation of recorded handle_message executions",
            "Every recorded execution (exhaustive tiny messages, truncations at every offset, mutated and random requests, weird catalogs, TSIG, RRL) must be a behaviour Server.tla allows; a panic is an outcome no spec action produces. Bounded/sampled conformance, not proof.",
            "3 C01"),
    "C02": ("independent TLA+ RFC 1035 decoder (Wire!DecodeMessage) applied by TLC to every recorded response",
            "Every response octet string of every server-level trace is decoded completely by a decoder written from RFC 1035 inside TLC; OPT/TSIG placement and RDATA validity are invariants evaluated per record.",
            "3 C02"),
    "C03": ("TLC trace validation against Server!Respond header/question rules",
            "All 2^16 flag words (thorough; strided in quick) x QDCOUNT 0/1/2 x mixed-case QNAMEs, short messages; the response header/question is checked bit for bit by the spec.",
            "3 C03"),
    "C04": ("TLC trace validation: size limit from Server!ScanAdd + UdpVsTcp relation on UDP/TCP response pairs",
            "Catalogs with fat RRsets/delegations/long names, random advertised and configured payload sizes; every UDP response is compared with the complete TCP response to the same request by the UdpVsTcp relation of the spec.",
            "3 C04"),
    "C05": ("TLA+ resolver (Resolve!Answer, written from RFC 1034/4592/6604/2308) judged by TLC on recorded query/response octets",
            "Random catalogs of nested zones; all names within two labels of the catalog's names x types; TLC decodes each response and compares RCODE, AA and the three sections with the specification's answer.",
            "3 C05"),
}

COMMON_NOTE = ("Trusted base: " + TLC + ". Scope: the inputs generated in this run (evidence file has the counts); "
               "undefined behaviour that neither panics nor changes an observable is out of reach.")


def main():
    props = [json.loads(l)["id"] for l in open(os.path.join(ROOT, "properties.jsonl"))]
    checks, na = [], []
    for pid in props:
        if pid in run.CHECKS and pid in P:
            tech, text, ref = P[pid]
            checks.append({
                "property_id": pid,
                "quick_cmd": f"python3 tools/run.py check {pid} --tier quick",
                "thorough_cmd": f"python3 tools/run.py check {pid} --tier thorough",
                "evidence_file": f"evidence/{pid}.json",
                "replay_cmd_template": "python3 tools/run.py replay {path}",
                "engine": "tlc-trace-validation",
                "level_claimed": {"category": "model_checking", "text": text, "design_ref": "DESIGN.md section " + ref},
                "level_note": COMMON_NOTE,
                "technique": tech,
            })
        else:
            na.append({"property_id": pid, "reason": "check not built yet in this commit (construction in progress; see DESIGN.md section 7) - the property is within reach of the technique and will be claimed"})
    hooks_commits = []
    try:
        import subprocess
        out = subprocess.run(["git", "-C", "/repo", "log", "--format=%H %s"], capture_output=True, text=True).stdout
        hooks_commits = [l.split()[0] for l in out.splitlines() if "verif_hooks" in l]
    except Exception:
        pass
    m = {
        "version": 1,
        "setup_cmd": "python3 tools/run.py setup",
        "hooks": {
            "guard": "cargo feature verif_hooks",
            "enable": "the harness crate depends on quandary with features [\"verif_hooks\", \"tokio\"] (path dependency on /repo); with the feature off the verif_emit! macro expands to nothing",
            "baseline_off_cmd": "cd /repo && cargo test --workspace --no-fail-fast --offline",
            "source_commits": hooks_commits,
            "add_only": True,
        },
        "engines": [
            {"name": "tlc-trace-validation", "path": "tools/run.py", "serves_properties": [c["property_id"] for c in checks],
             "kind_free_text": "Rust harness records executions of the real code as ND-JSON; TLC validates each record/session against the TLA+ specification in spec/ (trace specs in spec/trace, bounded model checking configs in spec/mc)"},
        ],
        "checks": checks,
        "not_applicable": na,
        "notes": "All checks: exit 0 held / 1 with VIOLATION line / 2 tool error. VERIF_SEED selects the random seed.",
    }
    json.dump(m, open(os.path.join(ROOT, "MANIFEST.json"), "w"), indent=1)
    print(f"{len(checks)} checks, {len(na)} not yet built")


if __name__ == "__main__":
    main()
