#!/usr/bin/env python3
"""Developer tool: import a confirmed seeded change from a sub-agent's output directory.
  import_seeded.py <ID> <n> "<needs>"      (reads /tmp/mut/<ID>-out/{mut<n>.diff,demo<n>.rs,confirm<n>.json,README.md})"""
import json, os, shutil, sys
ID, N, needs = sys.argv[1], sys.argv[2], sys.argv[3]
src = f"{os.environ.get('MUTBASE', '/tmp/mut')}/{ID}-out"
c = json.load(open(f"{src}/confirm{N}.json"))
ok = c["applies"] and c["build_hooks_rc"] == 0 and c["suite_failures"] == 0 and c["suite_tests_passed"] >= 283 and c["demo_fails_with_change"] and c["demo_passes_without_change"]
if not ok:
    sys.exit(f"not confirmed: {c}")
dst = os.path.join(os.path.dirname(os.path.dirname(os.path.abspath(__file__))), "seeded", f"{ID}-{os.environ.get('NAMEPFX', '')}m{N}")
os.makedirs(dst, exist_ok=True)
shutil.copy(f"{src}/mut{N}.diff", f"{dst}/patch.diff")
shutil.copy(f"{src}/demo{N}.rs", f"{dst}/demo.rs")
if os.path.exists(f"{src}/README.md"):
    shutil.copy(f"{src}/README.md", f"{dst}/AGENT_README.md")
json.dump({"property": ID, "needs_to_manifest": needs,
           "author": "sub-agent given only the property text and a private worktree of /repo" + (" (later round: asked for changes away from the obvious anchor)" if os.environ.get("NAMEPFX") else ""),
           "confirmed_by": "tools-side re-run in the scratch worktree (/tmp/mut/confirm.sh): git apply; cargo build --offline --features verif_hooks; cargo test --offline --workspace (existing suite); cargo test --test demo with and without the change",
           "confirmation": c}, open(f"{dst}/meta.json", "w"), indent=1)
print("imported", dst)
