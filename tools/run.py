#!/usr/bin/env python3
"""Orchestrator for the quandary model-based verification machinery.

  run.py setup                         compile overrides, parse all specs, build the harness
  run.py check <ID> --tier quick|thorough
  run.py replay <violation.json>

Exit codes: 0 = property held on everything explored; 1 = VIOLATION line printed;
2 = tool error (cargo / TLC / Java / timeout) -- never reported as a violation.
"""
import argparse
import glob
import json
import os
import re
import shutil
import subprocess
import sys
import time
from concurrent.futures import ThreadPoolExecutor

ROOT = os.path.dirname(os.path.dirname(os.path.abspath(__file__)))
SPEC = os.path.join(ROOT, "spec")
OUT = os.path.join(ROOT, "out")
HARNESS = os.path.join(ROOT, "harness")
QV = os.path.join(HARNESS, "target", "debug", "qv")
TLA_JAR = "/opt/veriftools/tla/tla2tools.jar"
CM_JAR = "/opt/veriftools/tla/CommunityModules-deps.jar"
OVR = os.path.join(ROOT, "overrides", "classes")
NSHARDS = int(os.environ.get("VERIF_SHARDS", "6"))   # JVM start costs ~6 CPU-seconds; the sandbox often delivers far less than 16 cores


class ToolError(Exception):
    pass


def log(*a):
    print(*a, file=sys.stderr, flush=True)


# ------------------------------------------------------------------ building

def build_overrides():
    srcs = glob.glob(os.path.join(ROOT, "overrides", "src", "tlc2", "overrides", "*.java"))
    stamp = os.path.join(OVR, ".stamp")
    if os.path.exists(stamp) and all(os.path.getmtime(s) <= os.path.getmtime(stamp) for s in srcs):
        return
    os.makedirs(OVR, exist_ok=True)
    r = subprocess.run(["javac", "-cp", TLA_JAR, "-d", OVR] + srcs, capture_output=True, text=True)
    if r.returncode != 0:
        raise ToolError("javac failed:\n" + r.stderr)
    open(stamp, "w").write("ok")


def build_harness():
    """Always rebuilds against /repo's current working tree (cargo decides what is stale)."""
    t = time.time()
    env = dict(os.environ, CARGO_NET_OFFLINE="true")
    r = subprocess.run(["cargo", "build", "--offline", "-q"], cwd=HARNESS, env=env, capture_output=True, text=True)
    if r.returncode != 0:
        raise ToolError("cargo build of the harness (path dependency on /repo) failed:\n" + r.stderr[-4000:])
    log(f"[build] harness up to date ({time.time() - t:.1f}s)")


def build_daemon():
    target = os.path.join(OUT, "repo-target")
    env = dict(os.environ, CARGO_NET_OFFLINE="true", CARGO_TARGET_DIR=target)
    r = subprocess.run(["cargo", "build", "--offline", "-q", "--bin", "quandaryd"], cwd=os.environ.get("VERIF_REPO", "/repo"), env=env,
                       capture_output=True, text=True)
    if r.returncode != 0:
        raise ToolError("cargo build of quandaryd failed:\n" + r.stderr[-4000:])
    return os.path.join(target, "debug", "quandaryd")


# ------------------------------------------------------------------ TLC

def java_cmd(xmx="3g"):
    os.makedirs(os.path.join(OUT, "tmp"), exist_ok=True)     # out/ is git-ignored: a fresh clone does not have it
    return ["java", "-XX:+UseParallelGC", "-Xss1g", f"-Xmx{xmx}",
            "-Dtlc2.overrides.TLCOverrides=tlc2.overrides.TLCOverrides:tlc2.overrides.QvOverrides",
            f"-DTLA-Library={SPEC}{os.pathsep}{os.path.join(SPEC, 'trace')}{os.pathsep}{os.path.join(SPEC, 'mc')}{os.pathsep}{os.path.join(SPEC, 'tests')}",
            f"-Djava.io.tmpdir={os.path.join(OUT, 'tmp')}",
            "-cp", f"{OVR}:{TLA_JAR}:{CM_JAR}"]


STAT_RE = re.compile(r"(\d+) states generated, (\d+) distinct states found")


def run_tlc(module, cfg, env=None, workers=1, timeout=3600, extra=(), deque=False, xmx="3g", tag=None):
    """Runs TLC on spec/<module>; returns dict(out, states, distinct, rc)."""
    os.makedirs(os.path.join(OUT, "tmp"), exist_ok=True)
    tag = tag or f"{os.path.basename(module)}-{os.getpid()}-{time.time_ns()}"
    meta = os.path.join(OUT, "meta", tag)
    shutil.rmtree(meta, ignore_errors=True)
    os.makedirs(meta, exist_ok=True)
    cmd = java_cmd(xmx)
    if deque:
        cmd.insert(1, "-Dtlc2.tool.queue.IStateQueue=StateDeque")
    cmd += ["tlc2.TLC", "-workers", str(workers), "-metadir", meta, "-cleanup", "-noGenerateSpecTE",
            "-config", cfg] + list(extra) + [module]
    e = dict(os.environ)
    e.pop("JAVA_TOOL_OPTIONS", None)
    if env:
        e.update(env)
    try:
        r = subprocess.run(cmd, cwd=os.path.dirname(module), env=e, capture_output=True, text=True, timeout=timeout)
    except subprocess.TimeoutExpired:
        raise ToolError(f"TLC timed out after {timeout}s on {module}")
    finally:
        shutil.rmtree(meta, ignore_errors=True)
    out = r.stdout + r.stderr
    m = None
    for m in STAT_RE.finditer(out):
        pass
    states, distinct = (int(m.group(1)), int(m.group(2))) if m else (0, 0)
    return dict(out=out, states=states, distinct=distinct, rc=r.returncode)


# --- parsing TLC's printed values (tuples of ints / strings / sets / records) ---

def parse_tla(s):
    pos = 0

    def ws():
        nonlocal pos
        while pos < len(s) and s[pos] in " \n\t\r":
            pos += 1

    def val():
        nonlocal pos
        ws()
        if s.startswith("<<", pos):
            pos += 2
            items = []
            ws()
            if s.startswith(">>", pos):
                pos += 2
                return items
            while True:
                items.append(val())
                ws()
                if s.startswith(">>", pos):
                    pos += 2
                    return items
                assert s[pos] == ",", (s[pos:pos + 20])
                pos += 1
        if s[pos] == "{":
            pos += 1
            items = []
            ws()
            if s[pos] == "}":
                pos += 1
                return items
            while True:
                items.append(val())
                ws()
                if s[pos] == "}":
                    pos += 1
                    return items
                assert s[pos] == ","
                pos += 1
        if s[pos] == "[":
            pos += 1
            d = {}
            while True:
                ws()
                m = re.match(r"(\w+)\s*\|->", s[pos:])
                assert m, s[pos:pos + 30]
                pos += m.end()
                d[m.group(1)] = val()
                ws()
                if s[pos] == "]":
                    pos += 1
                    return d
                assert s[pos] == ","
                pos += 1
        if s[pos] == '"':
            e = pos + 1
            while s[e] != '"':
                e += 2 if s[e] == "\\" else 1
            v = s[pos + 1:e]
            pos = e + 1
            return v
        m = re.match(r"-?\d+|TRUE|FALSE", s[pos:])
        assert m, s[pos:pos + 30]
        pos += m.end()
        t = m.group(0)
        return True if t == "TRUE" else False if t == "FALSE" else int(t)

    return val()


def rejected_from(out):
    """Finds the <<"REJECTED", n, <<...>>>> value printed by the Report invariant."""
    m = re.search(r'<<\s*"REJECTED"', out)
    if not m:
        return None
    i = m.start()
    # the value may span several lines; it ends at the matching >>
    depth = 0
    j = i
    while j < len(out):
        if out.startswith("<<", j):
            depth += 1
            j += 2
        elif out.startswith(">>", j):
            depth -= 1
            j += 2
            if depth == 0:
                break
        else:
            j += 1
    return parse_tla(out[i:j])


# ------------------------------------------------------------------ traces

class CodePanic(Exception):
    """The code under test panicked in a call the driver does not wrap: data (a violation), not a tool error."""
    def __init__(self, args, where):
        super().__init__(f"panic at {where} in driver {args}")
        self.driver_args = [str(a) for a in args]
        self.where = where


NETNS_SH = 'ip link set lo up && echo "4096 4096 4096" > /proc/sys/net/ipv4/tcp_wmem && exec "$@"'


def netns_available():
    """A private network namespace (own loopback, own tcp_wmem) needs CAP_SYS_ADMIN; the checks run as root in this sandbox."""
    try:
        r = subprocess.run(["unshare", "-n", "sh", "-c", NETNS_SH, "sh", "true"], capture_output=True, timeout=20)
        return r.returncode == 0
    except Exception:
        return False


def run_driver(args, timeout=3600, netns=False):
    t = time.time()
    # netns: the driver (server and clients, all in one process) gets its own loopback on which a TCP socket's send buffer
    # is fixed at 4 KiB, so a response larger than that is only partly taken by a non-blocking write while the client stalls
    prefix = ["unshare", "-n", "sh", "-c", NETNS_SH, "sh"] if netns else []
    try:
        r = subprocess.run(prefix + [QV] + [str(a) for a in args], capture_output=True, text=True, timeout=timeout)
    except subprocess.TimeoutExpired:
        raise ToolError(f"driver {args} timed out")
    if r.returncode == 3 and "DRIVER-PANIC at " in r.stderr:
        # a panic that escaped the driver's own catch_unwind: where was it raised? The harness's own files are
        # compiled with paths relative to /verif/harness ("src/..."); anything else (/repo/src/..., a crate of the
        # cargo registry called by it, the standard library) was raised on behalf of the code under test
        where = r.stderr.split("DRIVER-PANIC at ", 1)[1].strip().splitlines()[0]
        if where and not where.startswith("src/"):
            raise CodePanic(args, where)
    if r.returncode == -6 and "memory allocation of" in r.stderr:
        # the Rust allocator aborts the process when an allocation fails: the harness allocates nothing of a size that
        # depends on its input, so an impossible request comes from the code under test (e.g. a capacity computed from a
        # configured limit)
        raise CodePanic(args, "abort: " + [l for l in r.stderr.splitlines() if "memory allocation of" in l][-1].strip())
    if r.returncode != 0:
        raise ToolError(f"driver {args} failed (rc {r.returncode}):\n{r.stderr[-3000:]}")
    log(f"[drive] qv {' '.join(str(a) for a in args)}: {r.stderr.strip().splitlines()[-1] if r.stderr.strip() else ''} ({time.time() - t:.1f}s)")


def shard_trace(path, nshards, session_start=("Cfg",), max_bytes=24 << 20):
    """Splits an ND-JSON trace into shards at session boundaries.
    Returns [(shard_path, [original line numbers (1-based) of each shard line])]."""
    sessions = []  # list of (lines, linenos)
    cur, curno = [], []
    with open(path) as f:
        for no, line in enumerate(f, 1):
            if not line.strip():
                continue
            is_start = session_start is None or any(f'"ev":"{s}"' in line[:400] or f'"ev": "{s}"' in line[:400] for s in session_start) \
                or (session_start and _ev_is(line, session_start))
            if is_start and cur:
                sessions.append((cur, curno))
                cur, curno = [], []
            cur.append(line)
            curno.append(no)
    if cur:
        sessions.append((cur, curno))
    total = sum(sum(len(l) for l in s[0]) for s in sessions)
    n = max(1, min(nshards, len(sessions), (total + (1 << 20) - 1) // (1 << 20)))   # at least ~1 MB of trace per JVM
    n = max(n, min(len(sessions), (total + max_bytes - 1) // max_bytes))
    # a session that needs a header (Cfg) is kept whole; big sessions are split with the header repeated
    shards = [([], []) for _ in range(n)]
    sizes = [0] * n
    for lines, nos in sorted(sessions, key=lambda s: -sum(len(l) for l in s[0])):
        i = sizes.index(min(sizes))
        shards[i][0].extend(lines)
        shards[i][1].extend(nos)
        sizes[i] += sum(len(l) for l in lines)
    res = []
    for i, (lines, nos) in enumerate(shards):
        if not lines:
            continue
        sp = f"{path}.shard{i}"
        with open(sp, "w") as f:
            f.writelines(lines)
        res.append((sp, nos))
    return res


def _ev_is(line, names):
    m = re.search(r'"ev"\s*:\s*"(\w+)"', line)
    return bool(m) and m.group(1) in names


def split_big_sessions(path, max_records, header_evs=("Cfg",)):
    """Rewrites the trace so that no session has more than max_records records (header repeated)."""
    tmp = path + ".split"
    with open(path) as f, open(tmp, "w") as g:
        header = None
        count = 0
        for line in f:
            if _ev_is(line, header_evs):
                header = line
                count = 0
                g.write(line)
                continue
            if header is not None and count >= max_records:
                g.write(header)
                count = 0
            g.write(line)
            count += 1
    os.replace(tmp, path)


def validate_trace(trace, module, cfg, nshards=NSHARDS, session_start=("Cfg",), deque=False, timeout=3600, env=None):
    """Shards the trace, runs one TLC per shard in parallel, collects rejected records.
    Returns dict(records, rejected=[(lineno, tags, record)], states, shards)."""
    shards = shard_trace(trace, nshards, session_start)
    module = os.path.join(SPEC, "trace", module)
    cfgp = os.path.join(SPEC, "trace", cfg)

    def one(sh):
        sp, nos = sh
        e = {"TRACE": sp}
        if env:
            e.update(env)
        r = run_tlc(module, cfgp, env=e, workers=1, timeout=timeout, deque=deque, tag=os.path.basename(sp))
        rej = rejected_from(r["out"])
        if rej is None:
            raise ToolError(f"TLC did not report on {sp} (rc {r['rc']}):\n{r['out'][-3000:]}")
        return sp, nos, rej, r

    t = time.time()
    with ThreadPoolExecutor(max_workers=min(len(shards), NSHARDS)) as ex:
        results = list(ex.map(one, shards))
    rejected = []
    states = 0
    nrec = 0
    nbad_total = 0
    for sp, nos, rej, r in results:
        states += r["distinct"]
        nrec += len(nos)
        nbad_total += rej[1]
        lines = None
        for item in rej[2]:
            idx, tags = (item[0], item[1]) if isinstance(item, list) else (item, [])
            if lines is None:
                lines = open(sp).read().split("\n")
            rec = json.loads(lines[idx - 1])
            # the session header preceding this record
            hdr = None
            if session_start:
                for k in range(idx - 1, -1, -1):
                    if _ev_is(lines[k], session_start):
                        hdr = json.loads(lines[k])
                        break
            rejected.append(dict(line=nos[idx - 1], tags=sorted(tags) if isinstance(tags, list) else [tags], record=rec, header=hdr))
        os.remove(sp)
    log(f"[tlc] {os.path.basename(module)}: {nrec} records in {len(shards)} shards, {nbad_total} rejected ({time.time() - t:.1f}s)")
    return dict(records=nrec, rejected=rejected, nbad=nbad_total, states=states, shards=len(shards))


# ------------------------------------------------------------------ known findings / violations / evidence

def load_known():
    p = os.path.join(ROOT, "known_findings.json")
    if not os.path.exists(p):
        return []
    return [k for k in json.load(open(p)).get("findings", []) if k.get("status") == "known"]


def write_violation(pid, seed, n, payload):
    d = os.path.join(OUT, "violations")
    os.makedirs(d, exist_ok=True)
    p = os.path.join(d, f"{pid}-{seed}-{n}.json")
    json.dump(payload, open(p, "w"))
    return p


def write_evidence(pid, tier, seed, level, coverage, wall, violations, assumptions):
    os.makedirs(os.path.join(ROOT, "evidence"), exist_ok=True)
    ev = dict(property_id=pid, tier=tier, seed=seed, level=level, coverage=coverage, assumptions=assumptions,
              wall_s=round(wall, 2), violations=violations)
    json.dump(ev, open(os.path.join(ROOT, "evidence", f"{pid}.json"), "w"), indent=1)


class Result:
    """Accumulates what a check did."""

    def __init__(self, pid, tier, seed):
        self.pid, self.tier, self.seed = pid, tier, seed
        self.records = 0
        self.states = 0
        self.transitions = 0
        self.traces = 0
        self.violations = []   # dicts
        self.samples = []
        self.notes = {}
        self.assumptions = []
        self.mc = []

    def add_trace(self, name, v, trace_path, own_tags=None, sample_filter=None):
        """v = validate_trace result. Rejections whose tags include this property (or untagged) count."""
        self.records += v["records"]
        self.states += v["states"]
        self.transitions += v["records"]
        mine = [x for x in v["rejected"] if not x["tags"] or not own_tags or set(x["tags"]) & set(own_tags)]
        other = [x for x in v["rejected"] if x not in mine]
        self.traces += v["records"] - v["nbad"]
        self.notes[name] = dict(records=v["records"], rejected=v["nbad"], rejected_for_this_property=len(mine),
                                rejected_for_other_properties=sorted({t for x in other for t in x["tags"]}),
                                shards=v["shards"])
        for x in mine:
            self.violations.append(dict(stage=name, **x))
        if not self.samples:
            with open(trace_path) as f:
                for i, line in enumerate(f):
                    if i in (1, 2):
                        rec = json.loads(line)
                        self.samples.append(_shorten(rec))
                    if i > 2:
                        break

    def add_mc(self, name, r, expect_violation=False):
        self.states += r["distinct"]
        self.transitions += r["states"]
        self.mc.append(dict(model=name, distinct_states=r["distinct"], states_generated=r["states"],
                            expect_violation=expect_violation))


def _shorten(rec):
    out = {}
    for k, v in rec.items():
        if isinstance(v, list) and len(v) > 48:
            out[k] = v[:48] + ["...", len(v)]
        else:
            out[k] = v
    return out


def finish(res, t0, level="model_checking", rule=""):
    known = [k for k in load_known() if k["property"] == res.pid]
    unknown = []
    seen_known = {}
    for v in res.violations:
        k = match_known(v, known)
        if k:
            seen_known[k["what"]] = seen_known.get(k["what"], 0) + 1
        else:
            unknown.append(v)
    for what, cnt in seen_known.items():
        print(f"KNOWN-FINDING: property={res.pid} {what} [{cnt} record(s) in this run]")
    cov = dict(states=max(res.states, 1), transitions=max(res.transitions, 1),
               traces_validated_against_impl=res.traces, samples=res.samples or ["(model checking only)"],
               evaluations=res.records, rule=rule, stages=res.notes, model_checking=res.mc)
    write_evidence(res.pid, res.tier, res.seed, level, cov, time.time() - t0, len(unknown), res.assumptions)
    if unknown:
        for n, v in enumerate(unknown[:20]):
            p = write_violation(res.pid, res.seed, n, v)
            print(f"VIOLATION property={res.pid} replay={p}")
        log(f"[{res.pid}] {len(unknown)} violation(s); first: stage={unknown[0].get('stage')} tags={unknown[0].get('tags')} line={unknown[0].get('line')}")
        return 1
    log(f"[{res.pid}] held: {res.records} records validated, {res.states} spec states, {time.time() - t0:.0f}s")
    return 0


def match_known(v, known):
    for k in known:
        m = k.get("match", {})
        if all(_match_field(v, f, val) for f, val in m.items()):
            return k
    return None


def _match_field(v, f, val):
    cur = v
    for part in f.split("."):
        if not isinstance(cur, dict) or part not in cur:
            return False
        cur = cur[part]
    return cur == val


# ------------------------------------------------------------------ model checking stage

def run_mc(res, name, module, cfg, workers=8, timeout=3600, expect_violation=None, extra=(), must_cover=True):
    """Runs a bounded model-checking configuration. expect_violation = name of the invariant/property
    that the as_found variant must violate (standing demonstration that the model can see the defect)."""
    modp = os.path.join(SPEC, "mc", module)
    cfgp = os.path.join(SPEC, "mc", cfg)
    t = time.time()
    r = run_tlc(modp, cfgp, workers=workers, timeout=timeout, extra=["-coverage", "1"] + list(extra), xmx="8g")
    out = r["out"]
    violated = re.search(r"Error: Invariant (\w+) is violated|Error: Action property (\w+) is violated|Error: Temporal properties were violated|Error: Deadlock reached", out)
    log(f"[mc] {name}: {r['distinct']} distinct states, {'violation: ' + violated.group(0) if violated else 'no violation'} ({time.time() - t:.1f}s)")
    if "Error:" in out and not violated:
        raise ToolError(f"TLC failed on {module}/{cfg}:\n{out[-3000:]}")
    if expect_violation:
        if not violated or (expect_violation not in violated.group(0) and expect_violation != "any"):
            raise ToolError(f"{name}: the as_found variant was expected to violate {expect_violation} but TLC reported: "
                            f"{violated.group(0) if violated else 'no violation'} (the model lost sight of the defect)")
        res.add_mc(name, r, expect_violation=True)
        return
    res.add_mc(name, r)
    if violated:
        res.violations.append(dict(stage=name, tags=[res.pid], line=0, record=dict(tlc_output=out[-6000:]), header=None))
        return
    if "Model checking completed" not in out and "Finished computing" not in out:
        raise ToolError(f"TLC did not complete on {module}/{cfg}:\n{out[-3000:]}")
    if must_cover:
        # vacuity guard: every action of Next must have been taken at least once
        never = re.findall(r"<(\w+) line \d+, col \d+ to line \d+, col \d+ of module (\w+)>: 0:0", out)
        if never:
            raise ToolError(f"{name}: actions never taken (vacuous configuration): {never}")


def graph_histories(res, name, module, cfg, stride=1, timeout=3600):
    """(G) dumps the state graph of a model-checking configuration and returns the path of an ND-JSON file with
    one history per transition (tools/graph.py). The model is checked while it is dumped."""
    import graph
    dot = os.path.join(OUT, "tmp", f"{res.pid}-{os.getpid()}.dot")
    modp = os.path.join(SPEC, "mc", module)
    cfgp = os.path.join(SPEC, "mc", cfg)
    t = time.time()
    r = run_tlc(modp, cfgp, workers=1, timeout=timeout, extra=["-dump", "dot,actionlabels", dot], xmx="6g")
    if "Model checking completed. No error has been found" not in r["out"]:
        raise ToolError(f"{name}: TLC did not complete cleanly while dumping the graph:\n{r['out'][-3000:]}")
    hs, nedges, nstates = graph.histories(dot, parse_tla, stride=stride)
    os.remove(dot)
    path = os.path.join(OUT, "tmp", f"{res.pid}-{os.getpid()}.hist")
    with open(path, "w") as g:
        for h in hs:
            g.write(json.dumps(h) + "\n")
    res.add_mc(name, r)
    res.notes[name] = dict(graph_states=nstates, graph_transitions=nedges, histories=len(hs), stride=stride)
    log(f"[graph] {name}: {nstates} states, {nedges} transitions, {len(hs)} histories ({time.time() - t:.1f}s)")
    return path, len(hs)


# ------------------------------------------------------------------ the checks

def tr(name):
    d = os.path.join(OUT, "traces")
    os.makedirs(d, exist_ok=True)
    return os.path.join(d, name)


def server_stage(res, profile, scale, tags, nshards=NSHARDS, max_session=400):
    path = tr(f"{res.pid}-server-{profile}-{res.seed}.ndjson")
    run_driver(["server", profile, res.seed, scale, path])
    split_big_sessions(path, max_session)
    v = validate_trace(path, "TraceServer.tla", "TraceServer.cfg", nshards=nshards)
    res.add_trace(f"server/{profile}", v, path, own_tags=tags)
    if res.tier == "thorough" or os.environ.get("VERIF_NEGCTL"):
        negative_control(res, f"server/{profile}", path, "TraceServer", ("Cfg",))
    os.remove(path)


def check_C05(res):
    q = res.tier == "quick"
    server_stage(res, "resolve", 12 if q else 300, ["C05"])
    server_stage(res, "size", 1 if q else 30, ["C05"])      # fat delegations with mixed in-bailiwick / sibling name servers
    res.assumptions += ["NS at a wildcard owner is not generated (RFC 4592 4.2 leaves it undefined)",
                        "additional section compared as a set, answer and authority as multisets"]
    return "random catalogs of nested zones (delegations, glue, wildcards, ENTs, CNAME chains 0-10 and loops, classes IN/CH/HS); every name within two labels of the catalog's names x random types; one record = one request/response pair judged by Server!Respond + Resolve!Answer in TLC"


def check_C01(res):
    q = res.tier == "quick"
    server_stage(res, "total", 10 if q else 400, ["C01"])
    server_stage(res, "mutate", 2 if q else 60, ["C01"])
    server_stage(res, "tsig", 1 if q else 20, ["C01"])
    server_stage(res, "size", 1 if q else 20, ["C01"])      # additional-section processing beyond sixteen targets, roll-backs, exact fits
    res.assumptions += ["the response buffer has the documented minimum size for the transport",
                        "catalogs are built through the public zone API (including zones validation would reject)"]
    return "exhaustive 12-14 octet messages over a 12-symbol alphabet x all count combinations in {0,1}; every truncation of well-formed requests; count perturbations; misplaced/duplicated OPT and TSIG; random octets; ordinary and weird catalogs; keys 0-3; RRL on/off; a record is non-trivial when the request reaches the section scan"


def check_C02(res):
    q = res.tier == "quick"
    server_stage(res, "total", 6 if q else 200, ["C02"])
    server_stage(res, "resolve", 4 if q else 100, ["C02"])
    server_stage(res, "size", 1 if q else 30, ["C02"])
    server_stage(res, "tsig", 1 if q else 20, ["C02"])
    server_stage(res, "huge", 0 if q else 4, ["C02"])      # a 33 KiB TCP response with a name at offset 16384 (thorough: 21 alignments around it)
    return "every response of the total/resolve/size/tsig request families is decoded by Wire!DecodeMessage in TLC; a 33 KiB TCP response (215 MX records with 62-octet target labels and their addresses) aligned so that a compression target would lie exactly at offset 16384"


def check_C03(res):
    q = res.tier == "quick"
    server_stage(res, "header", 7 if q else 1, ["C03"])
    server_stage(res, "total", 4 if q else 100, ["C03"])
    server_stage(res, "edns", 2 if q else 60, ["C03"])      # BADVERS / FORMERR responses built around an OPT
    server_stage(res, "size", 1 if q else 20, ["C03"])      # responses emptied after the question was written (TC)
    return "all 16 header bits (every 7th flag word in quick, all 65536 in thorough) x QDCOUNT 0/1/2 x mixed-case QNAMEs x both transports; plus the total-request family"


def check_C04(res):
    q = res.tier == "quick"
    server_stage(res, "size", 3 if q else 120, ["C04"])
    server_stage(res, "resolve", 3 if q else 60, ["C04"])
    server_stage(res, "tsig", 1 if q else 20, ["C04"])     # signed responses: the advertised size swept across the complete signed length, UDP with TCP twin
    res.assumptions += ["RRL is off, so UDP and TCP handling of one request are comparable; for signed requests the twin is only used when both calls fell into the same second (the responses then differ in nothing but possibly the MAC)"]
    return "catalogs with RRsets of 20-70 records, 200-octet TXT strings, delegations with 4-12 name servers (in-bailiwick and sibling glue), 230-octet names; advertised payload 0..65535 (also swept across the exact length of the complete response), server payload 512..65535; every UDP record carries its TCP twin; TSIG-signed requests (three keys, five queries) with the advertised size from 8 below to 2 above the complete signed response"


def check_C07(res):
    q = res.tier == "quick"
    server_stage(res, "dispatch", 12 if q else 400, ["C07"])
    return "catalogs with nested loaded/not-yet-loaded/failed entries in classes IN/CH/HS/CLASS65280 (and a root zone); QNAME x QCLASS x QTYPE (incl. AXFR/IXFR/MAILA/MAILB/ANY) x all 16 opcodes x QDCOUNT 0/1/2; names whose octets end like a zone's name without being below it; the same over a SingleZoneCatalog"


def check_C08(res):
    q = res.tier == "quick"
    server_stage(res, "mutate", 8 if q else 300, ["C08"])
    server_stage(res, "total", 4 if q else 100, ["C08"])
    server_stage(res, "tsig", 2 if q else 40, ["C08"])     # TSIG records with a wrong class / TTL, malformed RDATA, not last
    return "well-formed requests mutated by truncation at every offset, appended junk, count changes, misplaced/duplicated OPT and TSIG, extra records in all sections, byte flips"


def check_C09(res):
    q = res.tier == "quick"
    server_stage(res, "edns", 6 if q else 300, ["C09"])
    server_stage(res, "mutate", 3 if q else 60, ["C09"])
    server_stage(res, "size", 1 if q else 20, ["C09"])      # EDNS responses that fill the negotiated size to the octet (the OPT record fits exactly)
    return "0/1/2 OPT records in every section and position, all version/ext-rcode/flag bytes in the TTL, root / non-root / compressed owners, option TLVs valid and truncated, advertised sizes 0..65535, server payload sizes 512..65535"


def check_C10(res):
    q = res.tier == "quick"
    server_stage(res, "tsig", 5 if q else 200, ["C10"])
    res.assumptions += ["HMAC-SHA1/SHA-256 computed by the JDK inside TLC (trusted primitive)",
                        "the server's clock read lies in the harness-measured interval [t0,t1] (whole seconds)"]
    return "requests signed by the harness's own RFC 8945 signer; variants: wrong secret, unknown key/algorithm, key-algorithm mismatch, MAC truncated to every length, time offsets around +-fudge, tampered covered octets, bad class/TTL, TSIG not last, other-data, error codes, maximal key/algorithm names; both MACs recomputed in TLC"


OBSERVED_FIELDS = ["resp", "got", "ops", "msg", "res", "val", "nodes", "parsed", "items", "obs", "hook", "events", "iter", "steps",
                   "avail", "after", "tc", "out", "rendered", "text_back", "cmp", "eq", "valid", "back", "generic", "lower", "rcode", "opcode",
                   "verdict", "comp", "skip", "unc", "kept", "eqs", "live", "sup", "type", "class", "qtype", "qclass"]


def _corrupt(v):
    """Changes one leaf of a JSON value (the last one reachable); returns (new value, changed?)."""
    if isinstance(v, bool):
        return (not v), True
    if isinstance(v, int):
        return (v + 1) % 256 if 0 <= v < 256 else v + 1, True
    if isinstance(v, str):
        return v + "x", True
    if isinstance(v, list):
        for i in range(len(v) - 1, -1, -1):
            nv, ch = _corrupt(v[i])
            if ch:
                return v[:i] + [nv] + v[i + 1:], True
        return v, False
    if isinstance(v, dict):
        prio = [k for k in ("get", "gen", "old", "kind", "res", "after", "avail") + tuple(OBSERVED_FIELDS) if k in v]
        for k in prio + [k for k in reversed(sorted(v)) if k not in prio]:
            nv, ch = _corrupt(v[k])
            if ch:
                d = dict(v)
                d[k] = nv
                return d, True
    return v, False


def negative_control(res, name, path, module, session_start, deque=False, env=None, max_lines=400, tries=8):
    """Binding demonstration: take a prefix of an accepted trace, change one observed field of one record,
    and require TLC to reject it. Not every leaf of every record is constrained (the last octet of a message may lie
    beyond what the recorded operations read; a response's SOA MINIMUM is not what a reload check looks at), so up to
    `tries` different records / fields are corrupted in turn, one at a time; the control passes as soon as one
    corruption is rejected. If every one of them is still accepted the specification does not constrain what the
    harness logs: that is a tool error (exit 2), not a property violation."""
    lines = []
    with open(path) as f:
        for i, l in enumerate(f):
            if i >= max_lines:
                break
            lines.append(l)
    # cut at the last session start so that no session is torn
    if session_start:
        starts = [i for i, l in enumerate(lines) if _ev_is(l, session_start)]
        if len(starts) > 1 and len(lines) == max_lines:
            lines = lines[:starts[-1]]
    candidates = []
    for i in range(len(lines) - 1, -1, -1):
        if session_start and _ev_is(lines[i], session_start):
            continue
        rec = json.loads(lines[i])
        for fld in OBSERVED_FIELDS:
            if fld in rec and rec[fld] not in ([], "", None):
                nv, ch = _corrupt(rec[fld])
                if ch:
                    candidates.append((i, fld, nv))
        if len(candidates) >= tries * 3:
            break
    if not candidates:
        raise ToolError(f"negative control for {name}: no observed field found to corrupt")
    # spread the tries over different fields and records: first one candidate per field name, then the rest
    seen, ordered = set(), []
    for c in candidates:
        if c[1] not in seen:
            seen.add(c[1])
            ordered.append(c)
    ordered += [c for c in candidates if c not in ordered]
    tried = []
    for (i, fld, nv) in ordered[:tries]:
        rec = json.loads(lines[i])
        rec[fld] = nv
        mod = list(lines)
        mod[i] = json.dumps(rec) + "\n"
        npath = path + ".neg"
        with open(npath, "w") as f:
            f.writelines(mod)
        v = validate_trace(npath, module + ".tla", module + ".cfg", nshards=1, session_start=session_start, deque=deque, env=env)
        os.remove(npath)
        tried.append(dict(corrupted_line=i + 1, field=fld, rejected_records=v["nbad"]))
        if v["nbad"] >= 1:
            res.notes[name + "/negative-control"] = dict(corrupted_line=i + 1, field=fld, rejected_records=v["nbad"], attempts=tried)
            log(f"[neg] {name}: corrupting '{fld}' of line {i + 1} is rejected ({v['nbad']} record(s)); {len(tried)} attempt(s)")
            return
    raise ToolError(f"negative control for {name}: {len(tried)} different corruptions of observed fields were all still accepted - "
                    f"the specification does not bind what is logged: {tried}")


def trace_stage(res, driver_args, module, name, tags, session_start=None, nshards=NSHARDS, deque=False, env=None, driver_tail=(), netns=False):
    path = tr(f"{res.pid}-{name.replace('/', '-')}-{res.seed}.ndjson")
    run_driver(driver_args + [path] + list(driver_tail), netns=netns)
    v = validate_trace(path, module + ".tla", module + ".cfg", nshards=nshards, session_start=session_start, deque=deque, env=env)
    res.add_trace(name, v, path, own_tags=tags)
    if res.tier == "thorough" or os.environ.get("VERIF_NEGCTL"):
        negative_control(res, name, path, module, session_start, deque=deque, env=env)
    os.remove(path)
    return v


def check_C14(res):
    q = res.tier == "quick"
    trace_stage(res, ["names", "wire", res.seed, 3 if q else 4], "TraceNames", "names/wire", ["C14"])
    trace_stage(res, ["names", "wirebig", res.seed, 1500 if q else 60000], "TraceNames", "names/wirebig", ["C14"])
    return "exhaustive: all buffers of length <= 3 (quick) / <= 4 (thorough) over the 12-symbol alphabet {0,1,2,3,63,64,'a','A',0xC0,0xC1,0xFF,12} at every start offset 0..len; structured buffers up to 600 octets (pointer chains, pointers to self/forward/last octet, 63/64-octet labels, 126-128 labels, 254-256 octet names); five API functions per record"


def check_C16(res):
    q = res.tier == "quick"
    trace_stage(res, ["names", "text", res.seed, 8000 if q else 300000], "TraceNames", "names/text", ["C16"])
    # NameBuilder (what FromStr and the zone-file name parser drive, and public API in its own right)
    run_mc(res, "MC_NameBuilder/impl", "MCNB.tla", "MCNB_impl.cfg", workers=2)
    run_mc(res, "MC_NameBuilder/next_label_mutates_on_error", "MCNB.tla", "MCNB_next_label_mutates_on_error.cfg", workers=2, expect_violation="any")
    trace_stage(res, ["names", "builder", res.seed, 3000 if q else 100000], "TraceNameBuilder", "names/builder", ["C16"])
    return "(M) every sequence of NameBuilder operations, continued after errors, for scaled-down limits (state within limits, a failed operation changes nothing, every finished name valid; a slip that closes the label before checking for room must violate); (V) random operation sequences on the real NameBuilder biased to 63-octet labels and a buffer filled to 253..255 octets, each result, is_fully_qualified() and the finished name judged by NameBuilder.tla with 255 / 63; random names with arbitrary label octets ('.', '\\', space, NUL, non-ASCII, '*'), 63-octet labels, 255-octet names, 127 labels; pairs incl. case variants and superdomains; random text with escapes and boundary sizes"


def check_C17(res):
    q = res.tier == "quick"
    stride = 7 if q else 1
    trace_stage(res, ["codes", stride, res.seed], "TraceCodes", "codes", ["C17"])
    res.notes["codes"]["exhaustive"] = not q
    return "all 65536 values of TYPE, CLASS, QTYPE, QCLASS (every 7th plus all named values in quick): Display, parse-back, upper/lower/mixed case, TYPEnnn/CLASSnnn in both cases, five malformed variants; all mnemonics in three spellings parsed as each kind; all 256 opcode/RCODE octets; extended RCODEs"


def check_C18(res):
    q = res.tier == "quick"
    trace_stage(res, ["rdata", res.seed, 6000 if q else 300000], "TraceRdata", "rdata", ["C18"])
    return "26 class/type combinations (A, CH A, NS, MD, MF, CNAME, SOA, MB, MG, MR, WKS, PTR, HINFO, MINFO, MX, TXT, AAAA, SRV, OPT, TSIG, NULL, unknown, non-IN variants); valid and near-valid RDATA (one octet short/long, bumped octet, truncation); Rdata::read with pointer-compressed embedded names and cursor/RDLENGTH pairs incl. cursor = len and RDLENGTH off by one; writer->reader round trip in all three compression modes"


def check_C19(res):
    q = res.tier == "quick"
    trace_stage(res, ["rdata", res.seed + 1000, 6000 if q else 300000], "TraceRdata", "rdata", ["C19"])
    return "pairs and triples (a,b,c) from a shared name pool with case variants, trailing junk and truncations; equals evaluated in both argument orders, reflexivity/symmetry/transitivity are trace conjuncts; RdataSetOwned::from_iter([a,b,c,a]) must keep Dedup's first members in order"


def check_C15(res):
    q = res.tier == "quick"
    trace_stage(res, ["reader", res.seed, 3000 if q else 80000], "TraceReader", "reader", ["C15"])
    return "hand-built messages (questions, compressed owners, A/NS/MX/SRV/unknown records, RDLENGTH-0 NS) and real server responses, each also mutated (truncation at any offset, count changes, corrupted lengths/pointers), driven by 1-13 random reader calls (read/skip question, read/skip/peek+skip/peek+parse/peek+drop/peek owner, mark, rewind); a sequence is non-trivial when at least one call succeeds past the header"


def check_C12(res):
    q = res.tier == "quick"
    trace_stage(res, ["writer", res.seed, 2500 if q else 80000], "TraceWriter", "writer", ["C12"])
    # (M) the space accounting (cursor / available / limit / reservations for OPT and TSIG) over every operation sequence in
    # scope; four realistic slips must each violate an invariant; (G) the histories of its state graph on the real Writer
    if not q:
        run_mc(res, "MC_WriterSpace/impl", "MC_WriterSpace.tla", "MC_WriterSpace_impl.cfg", workers=8)
    for v, inv in (("limit_ignores_reserved", "Ordered"), ("edns_no_check", "Ordered"), ("clear_returns_reserved", "ReservedKept"), ("tsig_compressed", "ReservedUsedExactly"), ("template_keeps_limit", "Ordered")):
        run_mc(res, f"MC_WriterSpace/{v}", "MC_WriterSpace.tla", f"MC_WriterSpace_{v}.cfg", workers=2, expect_violation=inv)
    hist, nh = graph_histories(res, "MC_WriterSpace/graph", "MC_WriterSpace.tla", "MC_WriterSpace_graph_quick.cfg" if q else "MC_WriterSpace_graph.cfg", stride=6 if q else 25)
    trace_stage(res, ["writer", "replay", hist], "TraceWriterSpace", "writer/space-replay", ["C12"])
    os.remove(hist)
    res.notes["writer/space-replay"]["histories_replayed"] = nh
    return "(M)+(G) Writer space accounting: every sequence of add_question / add_rr / set_limit / set_edns / set_tsig / clear_rrs / into_template + try_from_template (other buffer sizes) / finish over small sizes keeps cursor <= available <= limit <= buffer, keeps reservations, and finishes within the limit using exactly what was reserved; one shortest history per (every k-th) transition of that graph is carried out on the real Writer and each recorded triple, result and final length is the specification's; (V) random sequences of 3-40 writer operations (header setters, questions, RRs and RRsets in all sections with truthful hints, nine RDATA shapes incl. SOA/SRV/CH A/unknown/invalid, set_limit, three compression modes, set_edns, extended RCODEs up to 65535, clear_rrs) on buffers of 40-4096 octets so that truncation is frequent"


def check_C13(res):
    q = res.tier == "quick"
    trace_stage(res, ["writer", res.seed + 7, 2500 if q else 80000], "TraceWriter", "writer", ["C13", "C12:undecodable"])
    server_stage(res, "resolve", 2 if q else 40, ["C13"])
    if not q:
        server_stage(res, "huge", 4, ["C13"])
    return "the writer sequences of C12 over a name pool with shared suffixes and case variants (every pointer of every finished message is checked), plus all server responses of the resolve profile"


def check_C11(res):
    q = res.tier == "quick"
    trace_stage(res, ["tsiglib", res.seed, 1200 if q else 25000, 60 if q else 25], "TraceTsigLib", "tsiglib", ["C11"])
    res.assumptions += ["HMAC-SHA1/SHA-256 computed by the JDK inside TLC (trusted primitive)"]
    return "messages built with the real Writer in request/response/subsequent mode (also via into_template + try_from_template_as_tsig_subsequent), both algorithms, keys of 1-69 octets, prior MACs of 0-39 octets, times over the whole 48-bit range, fudges 0..65535, all error codes, with and without OPT; verified as produced at clocks time +- fudge (+-1), with one random bit flipped, with the MAC truncated to every length 0..out+1, and (every k-th message) with every octet position flipped in turn"


def check_C20(res):
    q = res.tier == "quick"
    trace_stage(res, ["zone", "store", res.seed, 1500 if q else 60000], "TraceZone", "zone/store", ["C20"])
    return "random add histories of 2-27 records (apexes z.test. / root / a.b.z.test.; in-zone owners over {a,b,*,ns,mx,del,sib} to depth 3, out-of-zone owners: unrelated, parent, sibling sharing a label prefix, apex as label prefix; class and TTL mismatches; duplicates and case variants); after every add the result and the store size (nodes, RRsets) must equal the spec's; then full iteration by node and by RRset, soa(), ns()"


def check_C21(res):
    q = res.tier == "quick"
    trace_stage(res, ["zone", "store", res.seed + 500, 1500 if q else 60000], "TraceZone", "zone/store", ["C21"])
    res.assumptions += ["RDATA of NS/MX/SOA/CNAME records is well formed (validate() returning Err(InvalidRdata) is outside the property)"]
    return "random zones mixing apex SOA 0/1/2, apex NS with in/out-of-zone targets, delegations, glue inside and outside child zones, sibling delegations, wildcards, NS at wildcards, CNAMEs alone/duplicated/with other data, MX; both glue policies; classes IN, CH, HS; the issue set and the error/warning split are recomputed by ZoneStore!Validate"


def check_C06(res):
    q = res.tier == "quick"
    run_mc(res, "MC_ZoneEq", "MC_ZoneEq.tla", "MC_ZoneEq.cfg" if not q else "MC_ZoneEq_quick.cfg", workers=8)
    run_mc(res, "MC_ZoneEq/mutant (referral test skipped at the target node)", "MC_ZoneEq.tla", "MC_ZoneEq_mutant.cfg", workers=4, expect_violation="Equiv")
    trace_stage(res, ["zone", "lookup", res.seed, 12 if q else 500], "TraceLookup", "zone/lookup", ["C06"], session_start=("Cfg",))
    res.assumptions += ["NS at a wildcard owner is not generated (RFC 4592 4.2 leaves it undefined)",
                        "unchecked lookups are only issued for names inside the zone (the contract of LookupOptions::unchecked)"]
    return "(M) the recursive tree walk of lookup_impl equals the declarative Zone!LookupBase for every zone in scope; (V) random zones (small alphabet {a,b,c,*} to depth 4, <= 40 records, NS at various depths, CNAMEs, ENTs; every third zone from the richer shared generator) x every name within two labels of every node and ancestor x option combinations x 9 types, three API functions; names outside the zone for the wrong-zone check"


def check_C22(res):
    q = res.tier == "quick"
    run_mc(res, "MC_Catalog/fixed", "MCC.tla", "MCC_fixed.cfg", workers=4)
    run_mc(res, "MC_Catalog/as_found (pruning drops data-bearing ancestors)", "MCC.tla", "MCC_as_found.cfg", workers=2, expect_violation="Refines")
    if not q:
        run_mc(res, "MC_Catalog/two classes", "MCC.tla", "MCC_two_classes.cfg", workers=8)
    hist, nh = graph_histories(res, "MC_Catalog/graph", "MCC.tla", "MCC_graph_quick.cfg" if q else "MCC_fixed.cfg")
    v = trace_stage(res, ["catalog", "replay", hist], "TraceCatalog", "catalog/graph-replay", ["C22"])
    os.remove(hist)
    res.notes["catalog/graph-replay"]["transitions_covered_by_validated_impl_traces"] = v["records"] - v["nbad"]
    trace_stage(res, ["catalog", "random", res.seed, 250 if q else 8000], "TraceCatalog", "catalog/random", ["C22"])
    return "(M) every history of inserts/removes over 6 nested names x 2 entry kinds (729 states) and over 2 classes: tree-with-pruning = abstract map, tree walk = longest suffix, iteration = entries, remove leaves other entries untouched; (G) one history per transition of that state graph replayed into the real HashMapTreeCatalog (quick: the 4-name graph) and (V) validated; random histories of 2-15 operations over three name pools (case variants, root entry) in 1-3 of the classes IN/CH/HS/NONE with all three entry kinds, probes = every pool name, x.<name>, an upper-case variant and an unrelated name in every class; SingleZoneCatalog probes"


def check_C23(res):
    q = res.tier == "quick"
    run_mc(res, "MC_ZoneFile (context rules; include stack = textual inclusion)", "MC_ZoneFile.tla", "MC_ZoneFile_quick.cfg", workers=4)
    trace_stage(res, ["zonefile", "render", res.seed, 700 if q else 40000], "TraceZoneFile", "zonefile/render", ["C23", "C23:wks-bit-order"])
    res.assumptions += ["RFC 3597 generic RDATA is rendered with the hexadecimal digits in one word (the parser accepts only that; RFC 3597 allows several words - observation, not part of the check)",
                        "TTLs are rendered as plain decimal seconds below 2^31"]
    return "random record lists (17 RDATA shapes: A, CH A, NS/CNAME/PTR/MB/MG/MR/MD/MF, MX, TXT, AAAA, SOA, SRV, HINFO, MINFO, WKS, unknown types and known types in RFC 3597 generic form; classes IN/CH/HS/CLASS65280) rendered by an independent pretty-printer with random presentation per field: omitted/reordered TTL and class, omitted owner, relative names and '@' against the current $ORIGIN, $TTL, parentheses across lines with comments inside, blank and comment lines, quoted/unquoted strings, \\X and \\DDD escapes of arbitrary octets, CRLF, missing final newline, mixed-case mnemonics and TYPEnnn/CLASSnnn; 4% deliberately broken files (first record omits what cannot be inherited); the expected parse (owner, TTL, class, type, RDATA octets, line number) is computed by the context machine of ZoneFile.tla in TLC"


def check_C24(res):
    q = res.tier == "quick"
    trace_stage(res, ["zonefile", "fuzz", res.seed, 6000 if q else 400000], "TraceZoneFile", "zonefile/fuzz", ["C24"])
    trace_stage(res, ["zonefile", "render", res.seed + 17, 150 if q else 4000], "TraceZoneFile", "zonefile/render", ["C24"])
    return "random octets (20%), token soups from zone-file vocabulary incl. NULL/OPT/TSIG and TYPE10/41/250 (40%), record skeletons with RFC 3597 generic RDATA of known types and random/near-valid hex and lengths (10%), oversized fields up to 70000 octets (10%), mutations of rendered valid files: truncate/insert/delete/overwrite/swap (20%); a parse slower than 20 s counts as non-termination; every yielded record is checked with Rdata!Valid in TLC; a case is non-trivial when the parser yields at least one item"


def exported_trees(res, name, module, cfg, stride, pick, workers=4):
    """(G) for models whose behaviours are their initial states: TLC checks the configuration and prints every
    stride-th state (<<"TREE", f0, f1, f2, md>> from the Export invariant); returns an ND-JSON file of trees."""
    modp = os.path.join(SPEC, "mc", module)
    text = open(os.path.join(SPEC, "mc", cfg)).read()
    text = re.sub(r"Stride = \d+", f"Stride = {stride}", text)
    text = re.sub(r"Pick = \d+", f"Pick = {pick % stride}", text)
    cfgp = os.path.join(OUT, "tmp", f"{res.pid}-{os.getpid()}-{cfg}")
    os.makedirs(os.path.dirname(cfgp), exist_ok=True)
    with open(cfgp, "w") as f:
        f.write(text)
    t = time.time()
    r = run_tlc(modp, cfgp, workers=workers, timeout=3600, xmx="6g")
    os.remove(cfgp)
    if "Model checking completed. No error has been found" not in r["out"]:
        raise ToolError(f"{name}: TLC did not complete cleanly while exporting trees:\n{r['out'][-3000:]}")
    path = os.path.join(OUT, "tmp", f"{res.pid}-{os.getpid()}.trees")
    n = 0
    out = r["out"]
    with open(path, "w") as g:
        tree_re = re.compile(r'<<\s*"TREE"')
        m = tree_re.search(out)
        while m:
            i = m.start()
            # the printed value may span several lines; it ends at the matching >>
            depth, j = 0, i
            while j < len(out):
                if out.startswith("<<", j):
                    depth += 1
                    j += 2
                elif out.startswith(">>", j):
                    depth -= 1
                    j += 2
                    if depth == 0:
                        break
                else:
                    j += 1
            v = parse_tla(out[i:j])
            g.write(json.dumps({"files": [v[1], v[2], v[3]], "md": v[4]}) + "\n")
            n += 1
            m = tree_re.search(out, j)
    if n == 0:
        raise ToolError(f"{name}: no tree was exported")
    res.add_mc(name, r)
    res.notes[name] = dict(initial_states=r["distinct"], exported=n, stride=stride, pick=pick % stride)
    log(f"[trees] {name}: {r['distinct']} trees checked, {n} exported ({time.time() - t:.1f}s)")
    return path, n


def check_C25(res):
    q = res.tier == "quick"
    if not q:
        run_mc(res, "MC_ZoneFile (include stack = textual inclusion)", "MC_ZoneFile.tla", "MC_ZoneFile.cfg", workers=8)
    run_mc(res, "MC_ZoneFile/mutant (includer's origin not restored)", "MC_ZoneFile.tla", "MC_ZoneFile_mutant.cfg", workers=2, expect_violation="Equiv")
    scratch = os.path.join(OUT, "zf")
    os.makedirs(scratch, exist_ok=True)
    # (M)+(G): the quick configuration is checked and every k-th of its trees is rendered as real files for the real parser
    trees, nt = exported_trees(res, "MC_ZoneFileG (include stack = textual inclusion; trees exported)", "MC_ZoneFileG.tla", "MC_ZoneFileG.cfg",
                               250 if q else 40, res.seed, workers=4 if q else 8)
    trace_stage(res, ["zonefile", "replay", trees], "TraceZoneFile", "zonefile/model-trees", ["C25"], driver_tail=[scratch])
    os.remove(trees)
    trace_stage(res, ["zonefile", "fs", res.seed, 300 if q else 10000], "TraceZoneFile", "zonefile/fs", ["C25"], driver_tail=[scratch])
    return "(G) every 250th (thorough: 40th) tree of the model-checked configuration is written out as real files in three directories and parsed by the real fs::Parser, its yield judged by ZoneFile!ParseTree; (M) all trees of three files over a 7-item alphabet + includes with/without origin, depth limits 0-2: the stack of per-file parsers (new_for_include, update_context_from_include) yields exactly what textual inclusion with origin save/restore yields; (V) random trees of 1-6 files in nested directories (top, top/sub, top/sub/deeper, x, x/y) with relative include paths that climb out of the includer's directory, include origins, context-dependent records after includes, depth limits 0-4, missing files (10%), decoy files where a path resolved against the wrong directory would land; fs::Parser output (file, line, record) against ZoneFile!ParseTree"


def check_C26(res):
    q = res.tier == "quick"
    run_mc(res, "MC_Rrl/fixed", "MC_Rrl.tla", "MC_Rrl.cfg" if q else "MC_Rrl_deep.cfg", workers=4)
    run_mc(res, "MC_Rrl/as_found (32-bit product wraps)", "MC_Rrl.tla", "MC_Rrl_as_found.cfg", workers=2, expect_violation="any")
    trace_stage(res, ["rrl", "time", res.seed, 40 if q else 1500], "TraceRrl", "rrl/time", ["C26"], session_start=("Reset",))
    # (G) one history per transition of the MC_Rrl state graph (every k-th in the quick tier), replayed with sub-second shifts
    hist, nh = graph_histories(res, "MC_Rrl/graph", "MC_Rrl.tla", "MC_Rrl_graph_quick.cfg" if q else "MC_Rrl.cfg", stride=4 if q else 4)
    v = trace_stage(res, ["rrl", "replay", hist], "TraceRrl", "rrl/graph-replay", ["C26"], session_start=("Reset",), driver_tail=[5, 2, 2])
    os.remove(hist)
    res.notes["rrl/graph-replay"]["sessions_replayed"] = nh
    res.assumptions += ["rates <= 10^6 and a total simulated idle time <= 2*10^9 s per session so that the specification's integers stay below 2^31",
                        "the limiter's clock read lies within the harness-measured interval around the call (the logged whole-second refill must be consistent with it)",
                        "for slip >= 2 a limited response may be slipped or dropped (the coin is not logged)"]
    return "(M) implemented bucket = abstract token bucket (same decision, same count) over every request-time history in scope, incl. gaps where rate x seconds exceeds the word size; (V) sessions of 5-69 requests: rates 1..10^6 per category, windows 1-15, slip 0-3, table sizes 1/7/65537 (evictions), idle periods 1 s .. 10^9 s injected by shifting every bucket's last_refill (Server::verif_rrl_shift) plus real sleeps of 0.1-1.2 s, single-stream and mixed-stream histories; (G) the histories of the MC_Rrl state graph (gaps of 0, 0.4, 0.6, 1.0, 2.6 and 32 s around the whole-second boundaries) replayed into the real limiter through sub-second shifts; every hook event (count before/after, whole seconds refilled, action) and the visible outcome (full response = the unlimited server's response octets, slipped = TC with only OPT/TSIG, dropped = none) is a step of Rrl!BucketStep"


def check_C27(res):
    q = res.tier == "quick"
    trace_stage(res, ["rrl", "streams", res.seed, 60 if q else 4000], "TraceRrl", "rrl/streams", ["C27"], session_start=("Reset",))
    trace_stage(res, ["rrl", "time", res.seed + 3, 15 if q else 300], "TraceRrl", "rrl/time", ["C27"], session_start=("Reset",))
    res.assumptions += ["QNAME hashes are 32 bits: two different stream names colliding (p < 10^-7 per session) would be reported as a violation",
                        "CNAME chains are not queried (the stream name of a chased answer is not defined by the property)"]
    return "sessions under a limit of one response per stream (rate 1, window 1): 12 sources (inside/outside the IPv4 /0,/8,/23,/24,/32 and IPv6 /0,/48,/56,/61,/64 prefixes, IPv4-mapped and almost-mapped IPv6), 13 QNAMEs (case variants, three names under two wildcards, NODATA, NXDOMAIN, REFUSED, SERVFAIL), UDP/TCP, non-QUERY opcodes; the key logged under the bucket lock must be Rrl!Dest(source) x category(direct response) and its QNAME hash must be in bijection with the stream name; TCP and non-QUERY requests must touch no bucket"


def check_C28(res):
    q = res.tier == "quick"
    trace_stage(res, ["rrl", "burst", res.seed, 500 if q else 8000], "TraceRrl", "rrl/burst", ["C28"], session_start=None)
    return "bursts of 2-16 OS threads x 1-59 identical requests released by a barrier, with yields in the submitters and a perturbing sink (yield / 50 us sleep while the bucket lock is held); the hook events, ordered by the sequence number taken under the lock, must chain on one bucket (before = previous after), one update per request, and with no refill in between exactly min(n, rate x window) responses are full"


def check_C29(res):
    q = res.tier == "quick"
    run_mc(res, "MC_ThreadPool/as_found (timeout exit without re-checking the queue)", "MC_ThreadPool.tla", "MC_Pool_as_found.cfg", workers=4, expect_violation="any")
    for cfg in (["MC_Pool_q1", "MC_Pool_q2", "MC_Pool_t4"] if q else ["MC_Pool_q1", "MC_Pool_q2", "MC_Pool_t1", "MC_Pool_t2", "MC_Pool_t3", "MC_Pool_t4", "MC_Pool_t5"]):
        run_mc(res, f"MC_ThreadPool/{cfg}", "MC_ThreadPool.tla", cfg + ".cfg", workers=4 if q else 8, must_cover=False)
    trace_stage(res, ["pool", res.seed, 150 if q else 6000], "TracePool", "pool", ["C29"], session_start=("Reset",))
    res.assumptions += ["a scenario that makes no progress for 20 s is reported as a hang (HHang is never a step of the specification); tasks are empty closures, so 20 s is four orders of magnitude above a legitimate step",
                        "which waiter a notify_one wakes is not logged: a wake-up is legal from the waiting state at any time (spurious wake-ups exist)"]
    return "(M) every interleaving (incl. condition-variable timeouts and spurious wake-ups at any point) of pools with 0-2 permanent workers, lingering or non-lingering auxiliary workers, 2-4 submitters (submit / submit_or_spawn) and concurrent shutdown: safety invariants + liveness under weak fairness of thread steps; the as_found variant must violate them; (V) real schedules of the unmodified thread.rs: 0-2 permanent workers, linger 0 or 4-19 ms, 1-6 tasks from their own threads, shutdown at a random time or only after every accepted task ran, sink that naps 0-300 us inside critical sections and sometimes holds a submitter inside the pool mutex for 3 x linger; every hook event validated with its logged scalars"


def check_C30(res):
    q = res.tier == "quick"
    for cfg in ["MCF_a", "MCF_b", "MCF_c"]:
        run_mc(res, f"MC_Framing/{cfg}", "MCF.tla", cfg + ".cfg", workers=2, must_cover=(cfg == "MCF_a"))   # in MCF_b and MCF_c the server closes before EOF
    run_mc(res, "MC_Framing/mutant (leftover not moved to the front)", "MCF.tla", "MCF_mutant.cfg", workers=2, expect_violation="any")
    small = netns_available()
    trace_stage(res, ["io", res.seed, 25 if q else 1500], "TraceIo", "io", ["C30"], session_start=None)
    if small:
        # the same driver on a private loopback whose TCP send buffers are fixed at 4 KiB: with a client that does not read,
        # the server's socket takes only part of a 12 KiB response per write (a short write on the non-blocking Tokio socket)
        trace_stage(res, ["io", res.seed + 7, 4 if q else 120], "TraceIo", "io/small-send-buffer", ["C30"], session_start=None, netns=True)
    else:
        res.assumptions.append("unshare -n is not available here: the small-send-buffer run was skipped (short writes are then not provoked)")
    res.assumptions += ["requests are sent well within the 5 s read timeout of the providers",
                        "the per-request oracle is the in-process handle_message result on the same server (validated against Server.tla by C01-C10)",
                        "if the kernel resets a connection that the server closed while the client was still sending (a client read or write fails), only a prefix of the expected octets is required; pipelined batches are never affected"]
    return "(M) the TCP read loop (buffer, n_read, cached length, leftover, close after a response-less message) against the abstract length-prefixed stream for every segmentation into reads, with liveness; (V) both providers in-process on loopback: blocking with (0 base workers, no linger, 1 UDP worker), (2, 50 ms, 2), (1, 0, 3) and Tokio; per configuration n connections carrying 1-7 requests (valid, FORMERR, NOTIMP, EDNS, response-less: QR set / shorter than a header / empty / two questions), written in one piece (pipelined) or in segments of 1-4000 octets with 0-11 ms pauses; n UDP exchanges from fresh sockets; everything returned, a 40 ms window for surplus octets/datagrams, close detection; the driver runs a second time on a private loopback (network namespace) whose TCP send buffers are fixed at 4 KiB, so responses are taken by the socket in pieces and a stalled reader provokes short writes"


def check_C31(res):
    q = res.tier == "quick"
    run_mc(res, "MC_Reload/fixed", "MCR.tla", "MCR_fixed.cfg" if q else "MCR_deep.cfg", workers=4)
    run_mc(res, "MC_Reload/as_found (previous entry by longest match)", "MCR.tla", "MCR_as_found.cfg", workers=2, expect_violation="ExactlyConfigured")
    if not q:
        # the composition: operator edits, non-atomic file reads of a reload, one atomic install, handlers with one snapshot
        run_mc(res, "MC_System/impl", "MC_System.tla", "MC_System.cfg", workers=8, must_cover=False)
        run_mc(res, "MC_System/mutant (zone from the snapshot, data from the installed catalog)", "MC_System.tla", "MC_System_mutant.cfg", workers=4, expect_violation="Linearizable")
    daemon = build_daemon()
    path = tr(f"C31-reload-{res.seed}.ndjson")
    scratch = os.path.join(OUT, "reload")
    t = time.time()
    r = subprocess.run([sys.executable, os.path.join(ROOT, "tools", "reload_driver.py"), daemon, path, str(res.seed), str(5 if q else 100), scratch],
                       capture_output=True, text=True, timeout=7200)
    if r.returncode != 0:
        raise ToolError("reload driver failed:\n" + r.stderr[-3000:])
    log(f"[drive] reload_driver: {sum(1 for _ in open(path))} records ({time.time() - t:.1f}s)")
    v = validate_trace(path, "TraceReload.tla", "TraceReload.cfg", session_start=("Reset",))
    res.add_trace("reload", v, path, own_tags=["C31"])
    if res.tier == "thorough" or os.environ.get("VERIF_NEGCTL"):
        negative_control(res, "reload", path, "TraceReload", ("Reset",))
    os.remove(path)
    # (G) histories of the MC_Reload state graph (configuration order x which files load, up to three reloads) carried out
    # on the running daemon: every k-th transition, k chosen so that 5 (thorough: about 80) histories are replayed
    hist, nh = graph_histories(res, "MC_Reload/graph", "MCR.tla", "MCR_fixed.cfg", stride=1)
    lines = open(hist).read().splitlines()
    want = 5 if q else 80
    step = max(1, len(lines) // want)
    pick = lines[(res.seed * 7) % step::step][:want]
    with open(hist, "w") as f:
        f.write("\n".join(pick) + "\n")
    path = tr(f"C31-reload-graph-{res.seed}.ndjson")
    t = time.time()
    r = subprocess.run([sys.executable, os.path.join(ROOT, "tools", "reload_driver.py"), daemon, path, str(res.seed), str(len(pick)), scratch, hist],
                       capture_output=True, text=True, timeout=7200)
    os.remove(hist)
    if r.returncode != 0:
        raise ToolError("reload driver (graph histories) failed:\n" + r.stderr[-3000:])
    log(f"[drive] reload_driver (graph histories): {sum(1 for _ in open(path))} records ({time.time() - t:.1f}s)")
    v = validate_trace(path, "TraceReload.tla", "TraceReload.cfg", session_start=("Reset",))
    res.add_trace("reload/graph-replay", v, path, own_tags=["C31"])
    res.notes["reload/graph-replay"]["histories_replayed"] = len(pick)
    os.remove(path)
    res.assumptions += ["zone-file modification times are set explicitly and increase with every edit (the daemon's unchanged-file shortcut compares mtimes)",
                        "a sentinel zone whose TXT record carries the step number tells the driver when a reload has taken effect; a reload not visible after 60 s is a rejected step"]
    return "(M) every reload history over nested zones p, c.p, d.c.p, q (any configured subset in any order, any subset loading): the catalog built by load_impl equals the declarative expectation and failures are independent; (V) histories of 2-6 steps against the running daemon built from /repo: per step a random configured subset in random order, each file rewritten valid / with a syntax error / valid syntax but failing validation (no apex NS) / deleted / left unchanged, SIGHUP, then TXT queries for every universe zone and a name below it; raw responses decoded and judged in TLC"


def check_C32(res):
    q = res.tier == "quick"
    run_mc(res, "MC_Snapshot/impl", "MC_Snapshot.tla", "MC_Snapshot_impl.cfg", workers=4)
    run_mc(res, "MC_Snapshot/mutant (shared pointer re-read per section)", "MC_Snapshot.tla", "MC_Snapshot_mutant.cfg", workers=2, expect_violation="OneSnapshot")
    trace_stage(res, ["snapshot", res.seed, 3 if q else 120, 100 if q else 250], "TraceSnapshot", "snapshot", ["C32"], session_start=("Reset",), nshards=min(NSHARDS, 3 if q else NSHARDS))
    res.assumptions += ["one catalog replacement and one key-set replacement at a time; the two kinds overlap each other (two swapper threads) and any number of handlers",
                        "HMAC-SHA256 computed by the JDK inside TLC (trusted primitive)"]
    return "(M) every interleaving of 2 handlers (snapshot, three sections) and a swapper over 3 generations: one snapshot per response, freshness, and soundness of the window rule used by the trace specification; (V) sessions of 4 query threads x n requests (7 query shapes whose complete answers carry the generation in every section, 40% TSIG-signed with the key generation the client believes current, 30% EDNS, both transports) while a swapper thread replaces catalogs and key sets every 0-400 us and the sink additionally forces a replacement exactly between a handler's snapshot and its use (15% of SnapCatalog/SnapKeys hooks); each response must equal Server!Respond for one (catalog generation, key generation) pair of the handler's windows, MACs recomputed in TLC; the last request of a session, issued after all replacements returned, has singleton windows"


CHECKS = {
    "C32": check_C32,
    "C31": check_C31,
    "C30": check_C30,
    "C29": check_C29,
    "C26": check_C26, "C27": check_C27, "C28": check_C28,
    "C23": check_C23, "C24": check_C24, "C25": check_C25,
    "C22": check_C22,
    "C06": check_C06, "C20": check_C20, "C21": check_C21,
    "C11": check_C11,
    "C12": check_C12, "C13": check_C13,
    "C15": check_C15,
    "C18": check_C18, "C19": check_C19,
    "C17": check_C17,
    "C14": check_C14, "C16": check_C16,
    "C01": check_C01, "C02": check_C02, "C03": check_C03, "C04": check_C04, "C05": check_C05,
    "C07": check_C07, "C08": check_C08, "C09": check_C09, "C10": check_C10,
}


def main():
    ap = argparse.ArgumentParser()
    sub = ap.add_subparsers(dest="cmd", required=True)
    sub.add_parser("setup")
    c = sub.add_parser("check")
    c.add_argument("pid")
    c.add_argument("--tier", default=os.environ.get("VERIF_TIER", "quick"), choices=["quick", "thorough"])
    r = sub.add_parser("replay")
    r.add_argument("path")
    a = ap.parse_args()
    try:
        if a.cmd == "setup":
            return setup()
        if a.cmd == "check":
            seed = int(os.environ.get("VERIF_SEED", "1"))
            t0 = time.time()
            build_overrides()
            build_harness()
            res = Result(a.pid, a.tier, seed)
            if a.tier == "thorough":
                spec_tests()
            try:
                rule = CHECKS[a.pid](res)
            except CodePanic as e:
                # the remaining stages of this check are not run: a violation has been found
                log(f"[panic] the code under test panicked outside any recorded call: {e.where}")
                res.violations.append(dict(stage="driver " + " ".join(e.driver_args[:2]), line=0, tags=[a.pid],
                                           record=dict(out="panic", where=e.where, driver=e.driver_args), header=None))
                rule = "aborted by a panic of the code under test in the driver process"
            return finish(res, t0, rule=rule or "")
        if a.cmd == "replay":
            return replay(a.path)
    except ToolError as e:
        log("TOOL ERROR:", e)
        return 2


def spec_tests():
    """The specification's own unit tests: RFC examples as ASSUMEs (spec/tests). A false assumption is a tool error."""
    for name in ("RfcExamples", "ApiExamples"):
        mod = os.path.join(SPEC, "tests", name + ".tla")
        r = run_tlc(mod, os.path.join(SPEC, "tests", name + ".cfg"), workers=1, timeout=600)
        if "Model checking completed. No error has been found" not in r["out"]:
            raise ToolError(f"spec/tests/{name}: an example does not hold for the specification:\n" + r["out"][-3000:])
    log("[spec-tests] RFC examples and API examples hold")


def setup():
    build_overrides()
    bad = 0
    for f in sorted(glob.glob(os.path.join(SPEC, "*.tla")) + glob.glob(os.path.join(SPEC, "*", "*.tla"))):
        cmd = java_cmd()[:-2] + ["-cp", f"{TLA_JAR}:{CM_JAR}", "tla2sany.SANY", f]
        r = subprocess.run(cmd, cwd=os.path.dirname(f), capture_output=True, text=True)
        if r.returncode != 0 or "*** Errors" in r.stdout or "Fatal" in r.stdout:
            log(f"SANY failed on {f}:\n{r.stdout[-2000:]}")
            bad += 1
    if bad:
        return 2
    spec_tests()
    build_harness()
    log("setup ok")
    return 0


def replay(path):
    v = json.load(open(path))
    print(json.dumps(_shorten(v.get("record", {})), indent=1))
    print("stage:", v.get("stage"), "tags:", v.get("tags"), "line:", v.get("line"))
    return 0


if __name__ == "__main__":
    sys.exit(main())
