#!/usr/bin/env python3
"""Developer tool (not a manifest command): run checks against a seeded change.

  selftest.py <seeded-dir> <check-id> [<check-id> ...] [--tier quick|thorough] [--seed N]

Applies <seeded-dir>/patch.diff to /repo (git apply), runs the named checks, undoes the change
(git checkout -- .) even if interrupted, and appends the outcome to <seeded-dir>/results.json.
/repo must be clean before and is clean afterwards."""
import json
import os
import subprocess
import sys
import time

ROOT = os.path.dirname(os.path.dirname(os.path.abspath(__file__)))


def sh(cmd, **kw):
    return subprocess.run(cmd, capture_output=True, text=True, **kw)


def main():
    args = sys.argv[1:]
    tier, seed = "quick", "1"
    if "--tier" in args:
        i = args.index("--tier")
        tier = args[i + 1]
        del args[i:i + 2]
    if "--seed" in args:
        i = args.index("--seed")
        seed = args[i + 1]
        del args[i:i + 2]
    sdir, checks = os.path.abspath(args[0]), args[1:]
    patch = os.path.join(sdir, "patch.diff")
    if sh(["git", "-C", "/repo", "status", "--porcelain"]).stdout.strip():
        sys.exit("/repo is not clean")
    r = sh(["git", "-C", "/repo", "apply", patch])
    if r.returncode != 0:
        sys.exit("patch does not apply: " + r.stderr)
    results = []
    try:
        for c in checks:
            t = time.time()
            env = dict(os.environ, VERIF_SEED=seed)
            r = sh([sys.executable, os.path.join(ROOT, "tools", "run.py"), "check", c, "--tier", tier], cwd=ROOT, env=env)
            nviol = sum(1 for l in r.stdout.splitlines() if l.startswith("VIOLATION"))
            last = r.stderr.strip().splitlines()[-1] if r.stderr.strip() else ""
            results.append(dict(check=c, tier=tier, seed=int(seed), exit=r.returncode, violation_lines=nviol,
                                detected=(r.returncode == 1 and nviol > 0), last_log_line=last, wall_s=round(time.time() - t, 1)))
            print(f"{os.path.basename(sdir)} {c} {tier}: exit {r.returncode}, {nviol} VIOLATION line(s) - {last}", flush=True)
    finally:
        sh(["git", "-C", "/repo", "checkout", "--", "."])
        sh(["git", "-C", "/repo", "clean", "-fdq", "tests", "src"])
    p = os.path.join(sdir, "results.json")
    old = json.load(open(p)) if os.path.exists(p) else []
    json.dump(old + results, open(p, "w"), indent=1)


if __name__ == "__main__":
    main()
