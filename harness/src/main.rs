//! `qv`: drivers that run the real quandary code and record what it did as
//! ND-JSON for validation against the TLA+ specification by TLC.

mod catalog_drv;
mod codes_drv;
mod common;
mod gen;
mod io_drv;
mod names_drv;
mod pool_drv;
mod rdata_drv;
mod reader_drv;
mod rrl_drv;
mod server_drv;
mod snapshot_drv;
mod tsiglib_drv;
mod writer_drv;
mod zone_drv;
mod zonefile_drv;

fn main() {
    let args: Vec<String> = std::env::args().skip(1).collect();
    if args.is_empty() {
        eprintln!("usage: qv <driver> <args...>");
        std::process::exit(2);
    }
    match args[0].as_str() {
        "server" => server_drv::main(&args[1..]),
        "codes" => codes_drv::main(&args[1..]),
        "rdata" => rdata_drv::main(&args[1..]),
        "reader" => reader_drv::main(&args[1..]),
        "writer" => writer_drv::main(&args[1..]),
        "tsiglib" => tsiglib_drv::main(&args[1..]),
        "names" => names_drv::main(&args[1..]),
        "zone" => zone_drv::main(&args[1..]),
        "catalog" => catalog_drv::main(&args[1..]),
        "rrl" => rrl_drv::main(&args[1..]),
        "pool" => pool_drv::main(&args[1..]),
        "io" => io_drv::main(&args[1..]),
        "snapshot" => snapshot_drv::main(&args[1..]),
        "zonefile" => zonefile_drv::main(&args[1..]),
        d => {
            eprintln!("unknown driver {}", d);
            std::process::exit(2);
        }
    }
}
