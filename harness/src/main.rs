//! `qv`: drivers that run the real quandary code and record what it did as
//! ND-JSON for validation against the TLA+ specification by TLC.

mod catalog_drv;
mod codes_drv;
mod common;
mod gen;
mod io_drv;
mod names_drv;
mod pool_drv;
mod rdata_drv;
mod reader_drv;
mod rrl_drv;
mod server_drv;
mod snapshot_drv;
mod tsiglib_drv;
mod writer_drv;
mod zone_drv;
mod zonefile_drv;

fn main() {
    let args: Vec<String> = std::env::args().skip(1).collect();
    if args.is_empty() {
        eprintln!("usage: qv <driver> <args...>");
        std::process::exit(2);
    }
    // Safety net: the drivers catch panics around the calls they make into the code under test and record them as
    // outcomes. A panic that escapes nevertheless ends the driver here with exit code 3 and the place it was raised:
    // the orchestrator reports it as a violation when that place is not the harness's own source (a panic of the
    // code under test is data, never a tool error) and as a tool error when it is.
    common::silence_panics();
    let a2 = args.clone();
    if std::panic::catch_unwind(move || dispatch(&a2)).is_err() {
        eprintln!("DRIVER-PANIC at {}", common::last_panic_location());
        std::process::exit(3);
    }
}

fn dispatch(args: &[String]) {
    match args[0].as_str() {
        "server" => server_drv::main(&args[1..]),
        "codes" => codes_drv::main(&args[1..]),
        "rdata" => rdata_drv::main(&args[1..]),
        "reader" => reader_drv::main(&args[1..]),
        "writer" => writer_drv::main(&args[1..]),
        "tsiglib" => tsiglib_drv::main(&args[1..]),
        "names" => names_drv::main(&args[1..]),
        "zone" => zone_drv::main(&args[1..]),
        "catalog" => catalog_drv::main(&args[1..]),
        "rrl" => rrl_drv::main(&args[1..]),
        "pool" => pool_drv::main(&args[1..]),
        "io" => io_drv::main(&args[1..]),
        "snapshot" => snapshot_drv::main(&args[1..]),
        "zonefile" => zonefile_drv::main(&args[1..]),
        // self-test of the safety net: an unchecked lookup outside the zone violates the documented precondition of
        // the zone API; if the code under test panics there, the driver ends with DRIVER-PANIC at a /repo location
        "selftest-panic" => {
            use quandary::db::zone::{GluePolicy, LookupOptions};
            use quandary::db::{HashMapTreeZone, Zone};
            let z = HashMapTreeZone::new(common::nm("a.b."), quandary::class::Class::IN, GluePolicy::Narrow);
            let _ = z.lookup(&common::nm("zz."), quandary::rr::Type::A, LookupOptions { unchecked: true, search_below_cuts: false });
            eprintln!("no panic");
        }
        d => {
            eprintln!("unknown driver {}", d);
            std::process::exit(2);
        }
    }
}
