//! C14 (wire-format name decoding) and C16 (text form, equality, ordering).
use std::collections::hash_map::DefaultHasher;
use std::hash::{Hash, Hasher};
use std::panic::{catch_unwind, AssertUnwindSafe};

use quandary::name::Name;
use rand::rngs::StdRng;
use rand::seq::SliceRandom;
use rand::{Rng, SeedableRng};
use serde_json::{json, Value};

use crate::common::*;

fn h(n: &Name) -> u64 {
    let mut s = DefaultHasher::new();
    n.hash(&mut s);
    s.finish()
}

fn call<T, F: FnOnce() -> Result<T, quandary::name::Error> + std::panic::UnwindSafe>(f: F, enc: impl Fn(T) -> Value) -> Value {
    match catch_unwind(f) {
        Ok(Ok(v)) => {
            let mut j = enc(v);
            j["out"] = json!("ok");
            j
        }
        Ok(Err(_)) => json!({"out": "err"}),
        Err(_) => json!({"out": "panic"}),
    }
}

fn wire_record(out: &mut Out, b: &[u8], off: usize) {
    let (b1, b2, b3, b4, b5) = (b.to_vec(), b.to_vec(), b.to_vec(), b.to_vec(), b.to_vec());
    let comp = call(move || Name::try_from_compressed(&b1, off), |(nm, l)| json!({"name": nm.wire_repr().to_vec(), "len": l}));
    let skip = call(move || Name::skip_compressed(&b2[off..]), |l| json!({"len": l}));
    let unc = call(move || Name::try_from_uncompressed(&b3[off..]), |(nm, l)| json!({"name": nm.wire_repr().to_vec(), "len": l}));
    let val = call(move || Name::validate_uncompressed(&b5[off..]), |l| json!({"len": l}));
    let valall = call(move || Name::validate_uncompressed_all(&b4[off..]), |_| json!({}));
    out.emit(json!({"ev": "Wire", "buf": b, "off": off, "comp": comp, "skip": skip, "unc": unc, "val": val, "valall": valall}));
}

/// exhaustive: all buffers of length <= n over the 12-symbol alphabet, every start offset 0..=len
fn wire_exhaustive(out: &mut Out, n: usize) {
    let alpha: [u8; 12] = [0, 1, 2, 3, 63, 64, b'a', b'A', 0xc0, 0xc1, 0xff, 12];
    let mut frontier: Vec<Vec<u8>> = vec![vec![]];
    wire_record(out, &[], 0);
    for _ in 0..n {
        let mut next = Vec::new();
        for b in &frontier {
            for a in alpha {
                let mut c = b.clone();
                c.push(a);
                for off in 0..=c.len() {
                    wire_record(out, &c, off);
                }
                next.push(c);
            }
        }
        frontier = next;
    }
}

/// structured buffers up to ~600 octets: pointer chains, boundary label and name sizes
fn wire_structured(r: &mut StdRng, out: &mut Out, n: usize) {
    for _ in 0..n {
        let mut buf: Vec<u8> = Vec::new();
        let mut starts: Vec<usize> = Vec::new();
        let nchunks = r.gen_range(1..8);
        for _ in 0..nchunks {
            starts.push(buf.len());
            let nl = *[0usize, 1, 2, 3, 4, 30, 126, 127, 128].choose(r).unwrap();
            for _ in 0..nl {
                let ll = *[1usize, 1, 1, 2, 3, 62, 63, 64].choose(r).unwrap();
                if buf.len() > 560 { break; }
                buf.push(ll as u8);
                for _ in 0..(ll.min(63)) { buf.push(*[b'a', b'Z', 0, 0xc0, b'.'].choose(r).unwrap()); }
            }
            match r.gen_range(0..10) {
                0..=3 => buf.push(0),
                4..=7 => {
                    // pointer: to an earlier start, to itself, forward, to the last octet
                    let tgt = match r.gen_range(0..6) { 0 => buf.len(), 1 => buf.len() + 5, 2 => buf.len().saturating_sub(1), _ => *starts.choose(r).unwrap() + if r.gen_bool(0.2) { 1 } else { 0 } };
                    buf.push(0xc0 | ((tgt >> 8) as u8 & 0x3f));
                    buf.push((tgt & 0xff) as u8);
                }
                8 => { buf.push(0xc0); } // pointer missing its second octet (if last)
                _ => {}
            }
            if r.gen_bool(0.2) { for _ in 0..r.gen_range(0..4) { buf.push(r.gen()); } }
        }
        for &s in &starts { wire_record(out, &buf, s); }
        wire_record(out, &buf, buf.len());
        let o = r.gen_range(0..=buf.len());
        wire_record(out, &buf, o);
        // 255 / 256 octet names made of exact label sizes
        if r.gen_bool(0.1) {
            for total in [254usize, 255, 256] {
                let mut v = Vec::new();
                let mut left = total - 1;
                while left > 0 { let ll = (left - 1).min(*[63usize, 1, 7].choose(r).unwrap()); if ll == 0 { break; } v.push(ll as u8); for _ in 0..ll { v.push(b'x'); } left -= ll + 1; }
                v.push(0);
                wire_record(out, &v, 0);
            }
        }
        // labels of exactly 252..256 octets in total, ended by a pointer (to a root octet / to a one-label name): the
        // 255-octet limit applies across the pointer
        if r.gen_bool(0.08) {
            for total in [252usize, 253, 254, 255, 256] {
                for tgt in [0usize, 1] {
                    let mut v = vec![0u8, 1, b't', 0];
                    let start = v.len();
                    let mut left = total;
                    while left > 0 {
                        let ll = if left == 1 { break } else { (left - 1).min(*[63usize, 1, 7, 30].choose(r).unwrap()) };
                        v.push(ll as u8);
                        for _ in 0..ll { v.push(b'y'); }
                        left -= ll + 1;
                    }
                    v.push(0xc0);
                    v.push(tgt as u8);
                    wire_record(out, &v, start);
                }
            }
        }
        // a name reached through a long chain of pointers, each pointing at the previous one (126..130 and 200 hops): legal
        // as long as every pointer leads backwards
        if r.gen_bool(0.04) {
            let hops = *[126usize, 127, 128, 129, 130, 200].choose(r).unwrap();
            let mut v = if r.gen_bool(0.5) { vec![0u8] } else { vec![1, b'r', 0] };
            let mut prev = 0usize;
            for _ in 0..hops { let at = v.len(); v.push(0xc0 | (prev >> 8) as u8); v.push((prev & 0xff) as u8); prev = at; }
            wire_record(out, &v, prev);
            let mut v2 = v.clone();
            let at = v2.len();
            v2.extend_from_slice(&[1, b'l', 0xc0 | (prev >> 8) as u8, (prev & 0xff) as u8]);
            wire_record(out, &v2, at);
        }
        // messages longer than 1 KiB / 4 KiB / close to the 16 KiB reach of a pointer: the target offset uses all 14 bits
        if r.gen_bool(0.06) {
            let t = *[1024usize, 1025, 1279, 1536, 2048, 3000, 4095, 4096, 8192, 12345, 16380, 16383].choose(r).unwrap();
            let mut v: Vec<u8> = Vec::with_capacity(t + 32);
            // filler: a chain of one-octet labels "f" closed by a root every 64 octets (a decodable name wherever a wrong offset lands)
            while v.len() < t { if v.len() % 64 == 62 && v.len() + 1 < t { v.push(0); } else if v.len() + 2 <= t { v.push(1); v.push(b'f'); } else { v.push(0); } }
            v.truncate(t);
            let tgt = v.len();
            v.extend_from_slice(&[3, b't', b'g', b't', 0]);
            let start = v.len();
            v.extend_from_slice(&[2, b'p', b'q', 0xc0 | (tgt >> 8) as u8, (tgt & 0xff) as u8]);
            wire_record(out, &v, start);
            wire_record(out, &v, tgt);
        }
    }
}

/// C16, NameBuilder: random operation sequences on the real builder, continued after errors. Slices and label
/// lengths are biased towards the limits (63-octet labels, a buffer filled to 253..255 octets) because that is
/// where the length checks live.
fn builder(r: &mut StdRng, out: &mut Out, n: usize) {
    use quandary::name::NameBuilder;
    let errname = |e: quandary::name::Error| -> String { format!("{:?}", e) };
    let suffixes: Vec<Vec<Vec<u8>>> = vec![vec![], vec![b"a".to_vec()], vec![b"example".to_vec(), b"test".to_vec()],
        vec![vec![b's'; 63]], vec![vec![b's'; 63], vec![b't'; 62]], vec![vec![b'u'; 30], vec![b'v'; 31], vec![b'w'; 1]]];
    for _ in 0..n {
        let mut ops: Vec<Value> = Vec::new();
        let near_full = r.gen_bool(0.5);
        let res = catch_unwind(AssertUnwindSafe(|| {
            let mut b = NameBuilder::new();
            let nops = r.gen_range(1..40);
            let mut fill = 1usize; // what the harness believes the buffer holds (only to steer the generator)
            for i in 0..nops {
                let last = i + 1 == nops;
                let k = if last { r.gen_range(90..100) } else { r.gen_range(0..100) };
                if k < 45 {
                    // push: one octet, a short slice, or a slice sized to land on / next to a limit
                    let len = if near_full && fill < 250 && r.gen_bool(0.5) { *[63usize, 62, 61, 64, 30].choose(r).unwrap() }
                              else if near_full && r.gen_bool(0.5) { (255usize.saturating_sub(fill)).min(64).saturating_sub(r.gen_range(0..3)) }
                              else { *[1usize, 1, 2, 5, 0].choose(r).unwrap() };
                    let octets: Vec<u8> = (0..len).map(|_| if r.gen_bool(0.8) { r.gen_range(b'a'..=b'z') } else { r.gen() }).collect();
                    let res = if octets.len() == 1 && r.gen_bool(0.5) { b.try_push(octets[0]) } else { b.try_push_slice(&octets) };
                    if res.is_ok() { fill += octets.len(); }
                    ops.push(json!({"op": "push", "arg": octets, "res": res.map(|_| "ok".to_string()).unwrap_or_else(errname), "fq": b.is_fully_qualified()}));
                } else if k < 90 {
                    let res = b.next_label();
                    if res.is_ok() { fill += 1; }
                    ops.push(json!({"op": "next", "arg": [], "res": res.map(|_| "ok".to_string()).unwrap_or_else(errname), "fq": b.is_fully_qualified()}));
                } else if k < 95 {
                    let res = b.finish();
                    ops.push(match res { Ok(nm) => json!({"op": "finish", "arg": [], "res": "ok", "fq": false, "name": nm.wire_repr().to_vec()}),
                                         Err(e) => json!({"op": "finish", "arg": [], "res": errname(e), "fq": false, "name": []}) });
                    return;
                } else {
                    let sfx = suffixes.choose(r).unwrap().clone();
                    let sname = name_of_wire(&wire_of_labels_or_root(&sfx));
                    let res = b.finish_with_suffix(&sname);
                    ops.push(match res { Ok(nm) => json!({"op": "suffix", "arg": sfx, "res": "ok", "fq": false, "name": nm.wire_repr().to_vec()}),
                                         Err(e) => json!({"op": "suffix", "arg": sfx, "res": errname(e), "fq": false, "name": []}) });
                    return;
                }
            }
        }));
        out.emit(json!({"ev": "Builder", "ops": ops, "out": if res.is_ok() { "ok" } else { "panic" }}));
    }
}

fn wire_of_labels_or_root(labels: &[Vec<u8>]) -> Vec<u8> {
    if labels.is_empty() { vec![0] } else { wire_of_labels(labels) }
}

fn text(r: &mut StdRng, out: &mut Out, n: usize) {
    let special = [b'.', b'\\', b' ', b'"', b';', 0u8, 127, 128, 255, b'a', b'A', b'z', b'Z', b'0', b'@', b'*', b'[', b'`', b'{'];
    let gen_name = |r: &mut StdRng| -> Vec<u8> {
        let mut w = Vec::new();
        let nl = *[0usize, 1, 1, 2, 2, 3, 5, 127].choose(r).unwrap();
        let big = r.gen_bool(0.05);
        for _ in 0..nl {
            let ll = if nl == 127 { 1 } else if big { *[63usize, 62, 1].choose(r).unwrap() } else { *[1usize, 1, 2, 3, 8].choose(r).unwrap() };
            if w.len() + ll + 2 > 255 { break; }
            w.push(ll as u8);
            for _ in 0..ll { w.push(if r.gen_bool(0.6) { *special.choose(r).unwrap() } else { r.gen() }); }
        }
        w.push(0);
        w
    };
    for _ in 0..n {
        let mut w = gen_name(r);
        // now and then a pair (a, b) in which a's octets end exactly like b's without a being a subdomain of b
        let mut forced_b: Option<Vec<u8>> = None;
        if r.gen_bool(0.04) {
            let b = gen_name(r);
            if let Some(t) = tail_trick_wire(&b) { w = t; forced_b = Some(b); }
        }
        let nm = Name::try_from_uncompressed_all(&w).unwrap();
        let text = nm.to_string();
        let back = match text.parse::<Box<Name>>() { Ok(b) => json!({"out": "ok", "name": b.wire_repr().to_vec()}), Err(_) => json!({"out": "err"}) };
        let mut pre_panic = false;
        let w2 = if let Some(b) = forced_b { b } else if r.gen_bool(0.03) && w.len() > 1 && (w[0] as usize) < 60 {
            // b = a with NUL octets appended to its first label: another label, however it is padded
            let l = w[0] as usize;
            let k = r.gen_range(1..=3usize.min(63 - l));
            let mut v = vec![(l + k) as u8];
            v.extend_from_slice(&w[1..1 + l]);
            v.extend(std::iter::repeat(0u8).take(k));
            v.extend_from_slice(&w[1 + l..]);
            if v.len() <= 255 { v } else { gen_name(r) }
        } else if r.gen_bool(0.08) {
            // differs from a only in bit 5 of octets that are not letters
            bit5_variant(r, &w)
        } else if r.gen_bool(0.4) {
            let mut v = w.clone();
            for b in v.iter_mut() { if b.is_ascii_alphabetic() && r.gen_bool(0.5) { *b ^= 0x20; } }
            v
        } else if r.gen_bool(0.3) {
            // a superdomain or a sibling
            let nmx = Name::try_from_uncompressed_all(&w).unwrap();
            let k0 = r.gen_range(0..3);
            match catch_unwind(move || nmx.superdomain(k0).map(|s| s.wire_repr().to_vec())) { Ok(Some(s)) => s, Ok(None) => gen_name(r), Err(_) => { pre_panic = true; gen_name(r) } }
        } else { gen_name(r) };
        let nm2 = match Name::try_from_uncompressed_all(&w2) { Ok(x) => x, Err(_) => nm.clone() };
        let w2 = nm2.wire_repr().to_vec();
        let ord = match nm.cmp(&nm2) { std::cmp::Ordering::Less => -1, std::cmp::Ordering::Equal => 0, _ => 1 };
        let ord_rev = match nm2.cmp(&nm) { std::cmp::Ordering::Less => -1, std::cmp::Ordering::Equal => 0, _ => 1 };
        let mut low = nm.clone();
        low.make_ascii_lowercase();
        let k = r.gen_range(0..4usize);
        // a panic of the code under test is an outcome ("out": "panic"), which no step of the specification produces
        let nmc = nm.clone();
        let sup = match catch_unwind(move || nmc.superdomain(k).map(|s| s.wire_repr().to_vec())) {
            Ok(Some(s)) if !pre_panic => json!({"out": "ok", "name": s}), Ok(None) if !pre_panic => json!({"out": "none"}), _ => json!({"out": "panic"}) };
        let labels: Vec<Vec<u8>> = nm.labels().map(|l| l.octets().to_vec()).collect();
        // LabelBuf (first labels of a and b; the empty label for the root) and LowercaseName: the other public types
        let fl = |n: &Name| -> Vec<u8> { n.labels().next().map(|l| l.octets().to_vec()).unwrap_or_default() };
        let (la, lb) = (fl(&nm), fl(&nm2));
        let lbuf = match catch_unwind(move || {
            use quandary::name::LabelBuf;
            let (x, y) = (LabelBuf::try_from(&la[..]).unwrap(), LabelBuf::try_from(&lb[..]).unwrap());
            let hb = |l: &LabelBuf| { let mut s = DefaultHasher::new(); l.hash(&mut s); s.finish() };
            let long = [b'x'; 64];
            json!({"eq": x == y, "cmp": match x.cmp(&y) { std::cmp::Ordering::Less => -1, std::cmp::Ordering::Equal => 0, _ => 1 }, "heq": hb(&x) == hb(&y),
                   "text": x.to_string().as_bytes().to_vec(), "len": x.len(), "too_long": LabelBuf::try_from(&long[..]).is_err(), "max_ok": LabelBuf::try_from(&long[..63]).is_ok()})
        }) { Ok(j) => j, Err(_) => json!({"eq": false, "cmp": 9, "heq": false, "text": [], "len": 999, "too_long": false, "max_ok": false}) };
        let nmc2 = nm.clone();
        let t2 = text.clone();
        let lc = match catch_unwind(move || {
            use quandary::name::LowercaseName;
            let l: Box<LowercaseName> = nmc2.into();
            let parsed = match t2.parse::<Box<LowercaseName>>() { Ok(p) => json!({"out": "ok", "name": p.wire_repr().to_vec()}), Err(_) => json!({"out": "err"}) };
            let back: Box<Name> = l.clone().into();
            json!({"wire": l.wire_repr().to_vec(), "text": l.to_string().as_bytes().to_vec(), "parsed": parsed, "back": back.wire_repr().to_vec()})
        }) { Ok(j) => j, Err(_) => json!({"wire": [], "text": [], "parsed": {"out": "panic"}, "back": []}) };
        out.emit(json!({"ev": "Name", "lbuf": lbuf, "lc": lc, "a": w, "text": text.as_bytes().to_vec(), "back": back, "b": w2, "eq": *nm == *nm2, "cmp": ord, "cmprev": ord_rev,
            "heq": h(&nm) == h(&nm2), "sub": nm.eq_or_subdomain_of(&nm2), "lower": low.wire_repr().to_vec(), "nlabels": nm.len(),
            "k": k, "sup": sup, "labels": labels, "wild": nm.is_wildcard(), "root": nm.is_root()}));
        // random text
        let tl = r.gen_range(0..12);
        let t: Vec<u8> = (0..tl).map(|_| *b"ab.\\019 AZ.\x7f*25".choose(r).unwrap()).collect();
        if let Ok(ts) = std::str::from_utf8(&t) {
            let p = match ts.parse::<Box<Name>>() { Ok(b) => json!({"out": "ok", "name": b.wire_repr().to_vec()}), Err(_) => json!({"out": "err"}) };
            out.emit(json!({"ev": "Text", "text": t, "parsed": p}));
        }
        // boundary text: labels of 63/64 and names of 255/256 octets
        if r.gen_bool(0.03) {
            for ll in [62usize, 63, 64] {
                let t = format!("{}.", "a".repeat(ll));
                let p = match t.parse::<Box<Name>>() { Ok(b) => json!({"out": "ok", "name": b.wire_repr().to_vec()}), Err(_) => json!({"out": "err"}) };
                out.emit(json!({"ev": "Text", "text": t.as_bytes(), "parsed": p}));
            }
            for last in [59usize, 60, 61, 62] {
                let t = format!("{0}.{0}.{0}.{1}.", "b".repeat(63), "c".repeat(last));
                let p = match t.parse::<Box<Name>>() { Ok(b) => json!({"out": "ok", "name": b.wire_repr().to_vec()}), Err(_) => json!({"out": "err"}) };
                out.emit(json!({"ev": "Text", "text": t.as_bytes(), "parsed": p}));
            }
        }
    }
}

pub fn main(args: &[String]) {
    silence_panics();
    let mode = args[0].as_str();
    let seed: u64 = args[1].parse().unwrap();
    let n: usize = args[2].parse().unwrap();
    let mut out = Out::create(&args[3]);
    let mut r = StdRng::seed_from_u64(seed);
    match mode {
        "wire" => wire_exhaustive(&mut out, n),
        "wirebig" => wire_structured(&mut r, &mut out, n),
        "text" => text(&mut r, &mut out, n),
        "builder" => builder(&mut r, &mut out, n),
        _ => panic!("unknown names mode"),
    }
    eprintln!("names/{}: {} records", mode, out.finish());
}
