//! Snapshot driver (C32): query threads against a server whose catalog and TSIG key set are being
//! replaced concurrently - by a swapper thread and, through the event sink, exactly between a
//! handler's snapshot and its use (`SnapCatalog` / `SnapKeys` hooks).
//!
//!   qv snapshot <seed> <nsessions> <requests-per-thread> <out>
//!
//! Every catalog generation stamps all of its data (SOA serial, address octets, MX preference), every
//! key-set generation has its own secret, and every generation is logged in full (`Gen` / `KGen`), so
//! that TLC can require each response to be exactly what Server!Respond prescribes for ONE catalog
//! generation and ONE key generation from the window in which the handler can have taken its
//! snapshots (TraceSnapshot.tla).

use std::collections::HashMap;
use std::net::Ipv4Addr;
use std::sync::atomic::{AtomicBool, AtomicUsize, Ordering};
use std::sync::{Arc, Mutex};
use std::time::Duration;

use quandary::db::catalog::Entry;
use quandary::db::zone::GluePolicy;
use quandary::message::tsig::Algorithm;
use quandary::server::{ReceivedInfo, Response, Server, Transport, TsigKeyMap};
use quandary::verif;
use rand::rngs::StdRng;
use rand::{Rng, SeedableRng};
use serde_json::{json, Value};

use crate::common::*;
use crate::gen::{build_zone, Cat, Rec};

const KEY_NAME: &str = "k.test.";

fn mkcat(g: usize) -> (Arc<Cat>, Value) {
    let gb = g as u8;
    let apex = "example.test.";
    let mut soa = w("ns.example.test.");
    soa.extend(w("a.example.test."));
    for v in [g as u32, 2, 3, 4, 60] { soa.extend_from_slice(&v.to_be_bytes()); }
    let mut mx = vec![0, gb];
    mx.extend(w("mail.example.test."));
    let recs = vec![
        Rec { owner: apex.into(), ty: 6, ttl: 60, rdata: soa },
        Rec { owner: apex.into(), ty: 2, ttl: 60, rdata: w("ns.example.test.") },
        Rec { owner: "ns.example.test.".into(), ty: 1, ttl: 60, rdata: vec![10, gb, gb, 1] },
        Rec { owner: apex.into(), ty: 15, ttl: 60, rdata: mx },
        Rec { owner: "mail.example.test.".into(), ty: 1, ttl: 60, rdata: vec![10, gb, gb, 2] },
        Rec { owner: "alias.example.test.".into(), ty: 5, ttl: 60, rdata: w("www.example.test.") },
        Rec { owner: "www.example.test.".into(), ty: 1, ttl: 60, rdata: vec![10, gb, gb, 3] },
        Rec { owner: "del.example.test.".into(), ty: 2, ttl: 60, rdata: w("ns.del.example.test.") },
        Rec { owner: "ns.del.example.test.".into(), ty: 1, ttl: 60, rdata: vec![10, gb, gb, 4] },
    ];
    let (zone, jrecs, _) = build_zone(apex, 1, &recs, GluePolicy::Narrow);
    let mut c = Cat::new();
    c.insert(Entry::Loaded(Arc::new(zone), ()));
    (Arc::new(c), json!([{"name": w(apex), "class": 1, "state": "loaded", "records": jrecs}]))
}

fn secret(g: usize) -> Vec<u8> {
    vec![g as u8; 32]
}

fn mkkeys(g: usize) -> (Arc<TsigKeyMap>, Value) {
    let mut map: TsigKeyMap = HashMap::new();
    map.insert(nm(KEY_NAME), (Algorithm::HmacSha256, secret(g).into_boxed_slice()));
    (Arc::new(map), json!([{"name": w(KEY_NAME), "alg": "sha256", "secret": secret(g)}]))
}

pub fn main(args: &[String]) {
    let seed: u64 = args[0].parse().unwrap();
    let nsess: usize = args[1].parse().unwrap();
    let nreq: usize = args[2].parse().unwrap();
    let mut out = Out::create(&args[3]);
    for s in 0..nsess {
        session(seed.wrapping_mul(7919).wrapping_add(s as u64), nreq, &mut out);
    }
    eprintln!("{} records", out.finish());
}

fn session(seed: u64, nreq: usize, out: &mut Out) {
    let log: Arc<Mutex<Vec<Value>>> = Arc::new(Mutex::new(Vec::new()));
    let push = {
        let log = log.clone();
        move |mut v: Value| {
            v["seq"] = json!(verif::next_seq());
            v["thr"] = json!(std::thread::current().name().unwrap_or("?").to_owned());
            log.lock().unwrap().push(v);
        }
    };
    let (cat1, jcat1) = mkcat(1);
    let (keys1, jkeys1) = mkkeys(1);
    let mut server = Server::new(cat1);
    server.set_edns_udp_payload_size(1232).unwrap();
    server.set_tsig_keys(keys1);
    let server = Arc::new(server);
    let gen = Arc::new(AtomicUsize::new(1));
    let kgen = Arc::new(AtomicUsize::new(1));
    let kcurrent = Arc::new(AtomicUsize::new(1)); // what a client believes the current key generation is
    // one replacement of each kind at a time; a catalog replacement and a key-set replacement may overlap
    let swap_lock = Arc::new(Mutex::new(()));
    let kswap_lock = Arc::new(Mutex::new(()));

    let do_swap = {
        let (server, gen, kgen, kcurrent, push, swap_lock, kswap_lock) = (server.clone(), gen.clone(), kgen.clone(), kcurrent.clone(), push.clone(), swap_lock.clone(), kswap_lock.clone());
        Arc::new(move |keys: bool| {
            let _g = match (if keys { &kswap_lock } else { &swap_lock }).try_lock() { Ok(g) => g, Err(_) => return };
            if keys {
                let g = kgen.load(Ordering::SeqCst) + 1;
                if g > 240 { return; }
                kgen.store(g, Ordering::SeqCst);
                let (k, jk) = mkkeys(g);
                push(json!({"ev": "KGen", "g": g, "keys": jk}));
                push(json!({"ev": "KSwapBegin", "g": g}));
                server.set_tsig_keys(k);
                push(json!({"ev": "KSwapEnd", "g": g}));
                kcurrent.store(g, Ordering::SeqCst);
            } else {
                let g = gen.load(Ordering::SeqCst) + 1;
                if g > 240 { return; }
                gen.store(g, Ordering::SeqCst);
                let (c, jc) = mkcat(g);
                push(json!({"ev": "Gen", "g": g, "catalog": jc}));
                push(json!({"ev": "SwapBegin", "g": g}));
                server.set_catalog(c);
                push(json!({"ev": "SwapEnd", "g": g}));
            }
        })
    };

    // sink: log hook events; at a snapshot hook sometimes replace the catalog / key set right there
    let sink_rng = Arc::new(Mutex::new(StdRng::seed_from_u64(seed)));
    let in_sink_swap = Arc::new(AtomicBool::new(false));
    {
        let (log, do_swap) = (log.clone(), do_swap.clone());
        verif::set_sink(Some(Arc::new(move |ev: &verif::Event| {
            if ev.kind != "SnapCatalog" && ev.kind != "SnapKeys" { return; }
            let mut rec = json!({"ev": ev.kind, "seq": ev.seq, "thr": ev.thread});
            for (k, v) in ev.fields { rec[*k] = json!(*v); }
            log.lock().unwrap().push(rec);
            let (go, keys) = { let mut r = sink_rng.lock().unwrap(); (r.gen_bool(0.15), r.gen_bool(0.4)) };
            if go && !in_sink_swap.swap(true, Ordering::SeqCst) {
                do_swap(keys);
                in_sink_swap.store(false, Ordering::SeqCst);
            }
        })));
    }

    let running = Arc::new(AtomicBool::new(true));
    let swapper = {
        let (running, do_swap) = (running.clone(), do_swap.clone());
        std::thread::Builder::new().name("swapper".into()).spawn(move || {
            let mut r = StdRng::seed_from_u64(seed ^ 0x5a5a);
            while running.load(Ordering::SeqCst) {
                std::thread::sleep(Duration::from_micros(r.gen_range(0..400)));
                do_swap(false);
            }
        }).unwrap()
    };
    let kswapper = {
        let (running, do_swap) = (running.clone(), do_swap.clone());
        std::thread::Builder::new().name("kswapper".into()).spawn(move || {
            let mut r = StdRng::seed_from_u64(seed ^ 0xa5a5);
            while running.load(Ordering::SeqCst) {
                std::thread::sleep(Duration::from_micros(r.gen_range(0..300)));
                do_swap(true);
            }
        }).unwrap()
    };

    // readers that do nothing but take snapshots in a tight loop: a replacement has to get through while the lock is
    // almost always read-held (they log nothing, so they do not exist for the specification)
    let noise: Vec<_> = (0..3).map(|i| {
        let (running, server) = (running.clone(), server.clone());
        std::thread::Builder::new().name(format!("noise{}", i)).spawn(move || {
            let mut n = 0u64;
            while running.load(Ordering::SeqCst) {
                let c = server.catalog();
                let k = server.tsig_keys();
                n = n.wrapping_add(Arc::strong_count(&c) as u64 + k.len() as u64);
            }
            n
        }).unwrap()
    }).collect();

    let mut handles = Vec::new();
    for t in 0..4u64 {
        let (server, push, kcurrent) = (server.clone(), push.clone(), kcurrent.clone());
        handles.push(std::thread::Builder::new().name(format!("q{}", t)).spawn(move || {
            let mut r = StdRng::seed_from_u64(seed.wrapping_mul(10).wrapping_add(t));
            let qs: [(&str, u16); 7] = [("example.test.", 15), ("alias.example.test.", 1), ("x.del.example.test.", 1), ("nx.example.test.", 1),
                                        ("example.test.", 2), ("example.test.", 255), ("www.example.test.", 28)];
            for _ in 0..nreq {
                let (qn, qt) = qs[r.gen_range(0..qs.len())];
                let q = Query { id: r.gen(), flags: 0, qname: w(qn), qtype: qt, qclass: 1 };
                let mut m = q.encode();
                if r.gen_bool(0.3) {
                    push_additional(&mut m, &opt_rr(1232, 0, &[0], &[]));
                }
                if r.gen_bool(0.4) {
                    let kg = kcurrent.load(Ordering::SeqCst);
                    let p = TsigParams { key_name: w(KEY_NAME), alg_name: w(Alg::Sha256.name()), time: unix_now(), fudge: 300,
                                         orig_id: u16::from_be_bytes([m[0], m[1]]), error: 0, other: vec![], class: 255, ttl: 0 };
                    tsig_sign(&mut m, &p, Alg::Sha256, &secret(kg), None);
                }
                let transport = if r.gen_bool(0.5) { Transport::Tcp } else { Transport::Udp };
                let mut buf = vec![0xFFu8; 65535];
                push(json!({"ev": "HBegin"}));
                let t0 = unix_now();
                let resp = match server.handle_message(&m, ReceivedInfo::new(Ipv4Addr::LOCALHOST.into(), transport), &mut buf) {
                    Response::Single(n) => buf[..n].to_vec(),
                    Response::None => vec![],
                };
                let t1 = unix_now();
                push(json!({"ev": "HEnd", "transport": tname(transport), "req": m, "out": if resp.is_empty() { "none" } else { "resp" }, "resp": resp, "t0": t0, "t1": t1}));
            }
        }).unwrap());
    }
    for h in handles { h.join().unwrap(); }
    running.store(false, Ordering::SeqCst);
    swapper.join().unwrap();
    kswapper.join().unwrap();
    for h in noise { h.join().unwrap(); }
    // after the last replacement has returned, a request must use the final generations
    {
        let q = Query { id: 7, flags: 0, qname: w("example.test."), qtype: 15, qclass: 1 };
        let m = q.encode();
        let mut buf = vec![0xFFu8; 65535];
        push(json!({"ev": "HBegin"}));
        let t0 = unix_now();
        let resp = match server.handle_message(&m, ReceivedInfo::new(Ipv4Addr::LOCALHOST.into(), Transport::Tcp), &mut buf) {
            Response::Single(n) => buf[..n].to_vec(),
            Response::None => vec![],
        };
        push(json!({"ev": "HEnd", "transport": "tcp", "req": m, "out": "resp", "resp": resp, "t0": t0, "t1": unix_now()}));
    }
    verif::set_sink(None);
    let mut evs = log.lock().unwrap().clone();
    evs.sort_by_key(|e| e["seq"].as_u64().unwrap());
    out.emit(json!({"ev": "Reset", "payload": 1232, "catalog": jcat1, "keys": jkeys1, "thr": "main"}));
    for e in evs {
        out.emit(e);
    }
}
