//! C17: code <-> text round trips, exhaustive over the 16-bit and 8-bit code spaces.
use quandary::class::Class;
use quandary::message::{ExtendedRcode, Opcode, Qclass, Qtype, Rcode};
use quandary::rr::Type;
use serde_json::json;

use crate::common::*;

fn b(s: &str) -> Vec<u8> {
    s.as_bytes().to_vec()
}

pub fn main(args: &[String]) {
    let stride: usize = args[0].parse().unwrap();
    let offset: usize = args[1].parse::<usize>().unwrap() % stride;
    let mut out = Out::create(&args[2]);
    macro_rules! kind {
        ($name:expr, $t:ty, $prefix:expr) => {
            for v in (offset as u32..=65535u32).step_by(stride).chain([1u32, 2, 3, 4, 5, 6, 7, 8, 9, 10, 11, 12, 13, 14, 15, 16, 28, 33, 41, 250, 251, 252, 253, 254, 255, 0, 65535]) {
                let v = v as u16;
                let text = <$t>::from(v).to_string();
                let p = |s: &str| -> i64 { s.parse::<$t>().map(|x| u16::from(x) as i64).unwrap_or(-1) };
                let lower = text.to_lowercase();
                let upper = text.to_uppercase();
                let mixed: String = text.chars().enumerate().map(|(i, c)| if i % 2 == 0 { c.to_ascii_lowercase() } else { c.to_ascii_uppercase() }).collect();
                let generic = format!("{}{}", $prefix, v);
                let generic_l = generic.to_lowercase();
                // the keyword in mixed case ("Type12", "cLASS3"): two of the 32 spellings, chosen by the value
                let mixed_kw = |k: usize| -> String { generic.chars().enumerate().map(|(i, c)| if (i + k) % 2 == 0 { c.to_ascii_lowercase() } else { c }).collect() };
                let (generic_m1, generic_m2) = (mixed_kw(0), { let mut g = generic_l.clone(); if let Some(f) = g.get_mut(0..1) { f.make_ascii_uppercase(); } g });
                // texts that must not parse: trailing junk, overflow, empty number
                let bads = [format!("{}x", text), format!("{}65536", $prefix), format!("{}", $prefix), format!("{}-1", $prefix), format!(" {}", text)];
                let bad: Vec<i64> = bads.iter().map(|s| p(s)).collect();
                out.emit(json!({"ev": "Code", "kind": $name, "v": v, "text": b(&text), "back": p(&text), "lower": p(&lower), "upper": p(&upper), "mixed": p(&mixed),
                    "generic": p(&generic), "generic_l": p(&generic_l), "generic_m": [p(&generic_m1), p(&generic_m2)], "bad": bad}));
            }
        };
    }
    kind!("TYPE", Type, "TYPE");
    kind!("CLASS", Class, "CLASS");
    kind!("QTYPE", Qtype, "TYPE");
    kind!("QCLASS", Qclass, "CLASS");
    // every known mnemonic in three spellings, parsed as each kind
    let mn = ["A", "NS", "MD", "MF", "CNAME", "SOA", "MB", "MG", "MR", "NULL", "WKS", "PTR", "HINFO", "MINFO", "MX", "TXT", "AAAA", "SRV", "OPT", "TSIG",
              "IXFR", "AXFR", "MAILB", "MAILA", "ANY", "*", "IN", "CH", "HS", "NONE", "CS", "FOO", ""];
    for m in mn {
        for s in [m.to_string(), m.to_lowercase(), { let mut c = m.to_lowercase(); if let Some(f) = c.get_mut(0..1) { f.make_ascii_uppercase(); } c }] {
            let t = s.parse::<Type>().map(|x| u16::from(x) as i64).unwrap_or(-1);
            let c = s.parse::<Class>().map(|x| u16::from(x) as i64).unwrap_or(-1);
            let qt = s.parse::<Qtype>().map(|x| u16::from(x) as i64).unwrap_or(-1);
            let qc = s.parse::<Qclass>().map(|x| u16::from(x) as i64).unwrap_or(-1);
            out.emit(json!({"ev": "Mnemonic", "text": b(&s), "type": t, "class": c, "qtype": qt, "qclass": qc}));
        }
    }
    for v in 0..=255u16 {
        let op = Opcode::try_from(v as u8).map(|o| u8::from(o) as i64).unwrap_or(-1);
        let rc = Rcode::try_from(v as u8).map(|o| u8::from(o) as i64).unwrap_or(-1);
        out.emit(json!({"ev": "Small", "v": v, "opcode": op, "rcode": rc}));
    }
    for v in (offset as u32..=65535u32).step_by(stride).chain(0..=32) {
        let r = Rcode::try_from(ExtendedRcode::from(v as u16)).map(|o| u8::from(o) as i64).unwrap_or(-1);
        out.emit(json!({"ev": "Ext", "v": v, "rcode": r}));
    }
    eprintln!("codes: {} records", out.finish());
}
