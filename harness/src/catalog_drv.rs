//! Catalog drivers (C22).
//!
//!   qv catalog random <seed> <n> <out>       random insert/remove histories over nested names in several
//!                                            classes (placeholder and loaded entries), plus SingleZoneCatalog probes
//!   qv catalog replay <histories> <out>      replays TLC-generated histories (one per transition of the
//!                                            MC_Catalog state graph; tools/graph.py) into the real catalog
//!
//! After every step: what the call returned, lookup + get for every probe name in every class, full iteration.

use std::panic::{catch_unwind, AssertUnwindSafe};
use std::sync::Arc;

use quandary::class::Class;
use quandary::db::catalog::Entry;
use quandary::db::zone::GluePolicy;
use quandary::db::{Catalog, HashMapTreeCatalog, HashMapTreeZone, SingleZoneCatalog};
use quandary::name::Name;
use rand::rngs::StdRng;
use rand::seq::SliceRandom;
use rand::{Rng, SeedableRng};
use serde_json::{json, Value};

use crate::common::*;

type Cat = HashMapTreeCatalog<HashMapTreeZone, u32>;

pub fn main(args: &[String]) {
    silence_panics();
    match args[0].as_str() {
        "random" => {
            let seed: u64 = args[1].parse().unwrap();
            let n: usize = args[2].parse().unwrap();
            let mut out = Out::create(&args[3]);
            random(&mut StdRng::seed_from_u64(seed), n, &mut out);
            eprintln!("{} records", out.finish());
        }
        "replay" => {
            let text = std::fs::read_to_string(&args[1]).expect("cannot read histories");
            let mut out = Out::create(&args[2]);
            for line in text.lines().filter(|l| !l.trim().is_empty()) {
                let h: Vec<Value> = serde_json::from_str(line).expect("bad history line");
                replay(&h, &mut out);
            }
            eprintln!("{} records", out.finish());
        }
        _ => panic!("unknown catalog mode"),
    }
}

fn make_entry(r: Option<&mut StdRng>, kind: u64, name: &Name, class: u16, gen: u32) -> Entry<HashMapTreeZone, u32> {
    let _ = r;
    match kind % 3 {
        1 => Entry::NotYetLoaded(name.to_owned(), Class::from(class), gen),
        2 => Entry::FailedToLoad(name.to_owned(), Class::from(class), gen),
        _ => Entry::Loaded(Arc::new(HashMapTreeZone::new(name.to_owned(), Class::from(class), GluePolicy::Narrow)), gen),
    }
}

fn observe<C: Catalog<ZoneImpl = HashMapTreeZone, Metadata = u32>>(cat: &C, probes: &[Box<Name>], classes: &[u16]) -> Vec<Value> {
    let mut obs = Vec::new();
    for p in probes {
        for &c in classes {
            let l = match cat.lookup(p, Class::from(c)) {
                Some(e) => json!({"has": true, "name": e.name().wire_repr().to_vec(), "gen": *e.metadata(), "class": u16::from(e.class())}),
                None => json!({"has": false, "name": [0], "gen": 0, "class": 0}),
            };
            let g = cat.get(p, Class::from(c)).map(|e| *e.metadata()).unwrap_or(0);
            obs.push(json!({"p": p.wire_repr().to_vec(), "c": c, "lookup": l, "get": g}));
        }
    }
    obs
}

fn iter_of(cat: &Cat) -> Vec<Value> {
    cat.iter().map(|e| json!({"name": e.name().wire_repr().to_vec(), "class": u16::from(e.class()), "gen": *e.metadata()})).collect()
}

enum Op {
    Insert(Box<Name>, u16, u64),
    Remove(Box<Name>, u16),
}

fn run_history(ops: &[Op], probes: &[Box<Name>], classes: &[u16], out: &mut Out, observe_all: bool) {
    let mut cat: Cat = HashMapTreeCatalog::new();
    let mut steps: Vec<Value> = Vec::new();
    let mut gen = 0u32;
    for (i, op) in ops.iter().enumerate() {
        gen += 1;
        let full = observe_all || i + 1 == ops.len();
        let res = catch_unwind(AssertUnwindSafe(|| match op {
            Op::Insert(name, class, kind) => {
                let old = cat.insert(make_entry(None, *kind, name, *class, gen)).map(|o| *o.metadata()).unwrap_or(0);
                json!({"op": "insert", "name": name.wire_repr().to_vec(), "class": class, "gen": gen, "old": old})
            }
            Op::Remove(name, class) => {
                let old = cat.remove(name, Class::from(*class)).map(|o| *o.metadata()).unwrap_or(0);
                json!({"op": "remove", "name": name.wire_repr().to_vec(), "class": class, "gen": 0, "old": old})
            }
        }));
        match res {
            Ok(d) if full => steps.push(json!({"do": d, "full": true, "obs": observe(&cat, probes, classes), "iter": iter_of(&cat)})),
            Ok(d) => steps.push(json!({"do": d, "full": false, "obs": [], "iter": []})),
            Err(_) => {
                // a panic is an outcome no step of the specification produces
                steps.push(json!({"do": {"op": "panic", "name": [0], "class": 0, "gen": 0, "old": -1}, "full": true, "obs": [], "iter": []}));
                break;
            }
        }
    }
    out.emit(json!({"ev": "Hist", "steps": steps}));
}

fn random(r: &mut StdRng, n: usize, out: &mut Out) {
    let pools: [&[&str]; 4] = [
        &["a.", "b.a.", "c.b.a.", "d.a.", "e.", "."],
        &["x.y.z.", "y.z.", "w.x.y.z.", "v.w.x.y.z.", "q.y.z.", "z."],
        &["example.test.", "sub.example.test.", "deep.sub.example.test.", "test.", "other.test.", "SUB.example.TEST."],
        &["a-label-of-more-than-sixteen-octets.test.", "x.a-label-of-more-than-sixteen-octets.test.", "test.", "another-quite-long-label-here.x.a-label-of-more-than-sixteen-octets.test.", "short.test.", "."],
    ];
    let all_classes = [1u16, 3, 4, 254];
    for i in 0..n {
        let pool = pools[i % pools.len()];
        let ncls = r.gen_range(1..=3);
        let classes: Vec<u16> = all_classes.choose_multiple(r, ncls).cloned().collect();
        let mut probes: Vec<Box<Name>> = Vec::new();
        for p in pool {
            probes.push(nm(p));
            probes.push(nm(&if *p == "." { "x.".to_string() } else { format!("x.{}", p) }));
            if let Some(t) = tail_trick(p) { probes.push(nm(&t)); }
        }
        probes.push(nm(&rand_case(r, pool[1]).to_ascii_uppercase()));
        probes.push(nm("unrelated.zone."));
        let mut ops = Vec::new();
        for _ in 0..r.gen_range(2..16) {
            let base = *pool.choose(r).unwrap();
            let name = nm(&rand_case(r, base));
            let class = *classes.choose(r).unwrap();
            if r.gen_bool(0.55) {
                ops.push(Op::Insert(name, class, r.gen_range(0..3)));
            } else {
                ops.push(Op::Remove(name, class));
            }
        }
        run_history(&ops, &probes, &classes, out, true);
        // SingleZoneCatalog: one entry, probed with the same names
        if i % 4 == 0 {
            let name = nm(pool.choose(r).unwrap());
            let class = *classes.choose(r).unwrap();
            let gen = r.gen_range(1..1000u32);
            let cat = SingleZoneCatalog::new(make_entry(None, r.gen_range(0..3), &name, class, gen));
            out.emit(json!({"ev": "Single", "name": name.wire_repr().to_vec(), "class": class, "gen": gen, "obs": observe(&cat, &probes, &all_classes)}));
        }
    }
}

fn name_of_labels(v: &Value) -> Box<Name> {
    // leaf first; labels are arrays of octets
    let labels: Vec<Vec<u8>> = v.as_array().unwrap().iter().map(|l| l.as_array().unwrap().iter().map(|o| o.as_u64().unwrap() as u8).collect()).collect();
    name_of_wire(&wire_of_labels(&labels))
}

fn replay(h: &[Value], out: &mut Out) {
    let mut ops = Vec::new();
    let mut classes: Vec<u16> = Vec::new();
    let mut probes: Vec<Box<Name>> = Vec::new();
    for op in h {
        let a = op.as_array().unwrap();
        let class = a[1].as_u64().unwrap() as u16;
        let name = name_of_labels(&a[2]);
        if !classes.contains(&class) { classes.push(class); }
        match a[0].as_str().unwrap() {
            "Insert" => ops.push(Op::Insert(name, class, a[3].as_u64().unwrap())),
            "Remove" => ops.push(Op::Remove(name, class)),
            x => panic!("unknown action {}", x),
        }
    }
    for s in ["a.", "b.a.", "c.b.a.", "d.a.", "e.", ".", "x.c.b.a.", "x.b.a.", "x.a.", "x.e.", "x."] {
        probes.push(nm(s));
    }
    if !classes.contains(&1) { classes.push(1); }
    if !classes.contains(&3) { classes.push(3); }
    // every prefix of this history is the history of another transition: observe after the last step only
    run_history(&ops, &probes, &classes, out, false);
}
