//! I/O provider driver (C30): both providers in-process on loopback sockets.
//!
//!   qv io <seed> <n> <out>      n TCP connections + n UDP exchanges per provider configuration
//!
//! TCP: a batch of 1-7 length-prefixed requests (valid, malformed, response-less) written with random
//! segmentation and delays (pipelined); everything the connection returns is logged, plus whether the
//! server closed it and whether anything arrived beyond the expected octets. UDP: one datagram, all
//! datagrams that come back within the window. The per-request oracle is the in-process
//! `handle_message` result on the same server (`direct`), itself validated by the server checks.
//! TLC compares with Framing!ExpectedStream (TraceIo.tla).

use std::io::{Read, Write};
use std::net::{Ipv4Addr, SocketAddr, TcpListener, TcpStream, UdpSocket};
use std::sync::Arc;
use std::time::Duration;

use quandary::class::Class;
use quandary::db::catalog::Entry;
use quandary::db::zone::GluePolicy;
use quandary::db::{HashMapTreeCatalog, HashMapTreeZone};
use quandary::io::{BlockingIoConfig, BlockingIoProvider, TokioIoProvider};
use quandary::rr::{Ttl, Type};
use quandary::server::{ReceivedInfo, Response, Server, Transport};
use quandary::thread::ThreadGroup;
use rand::rngs::StdRng;
use rand::seq::SliceRandom;
use rand::{Rng, SeedableRng};
use serde_json::{json, Value};

use crate::common::*;

type Cat = HashMapTreeCatalog<HashMapTreeZone, ()>;

fn free_port() -> u16 {
    TcpListener::bind(("127.0.0.1", 0)).unwrap().local_addr().unwrap().port()
}

fn gen_req(r: &mut StdRng) -> Vec<u8> {
    let qn = *["www.example.test.", "nx.example.test.", "example.test.", "big.example.test.", "other."].choose(r).unwrap();
    let mut m = vec![r.gen::<u8>(), r.gen::<u8>(), 0, 0, 0, 1, 0, 0, 0, 0, 0, 0];
    m.extend_from_slice(&w(qn));
    m.extend_from_slice(&[0, *[1u8, 16, 255].choose(r).unwrap(), 0, 1]);
    match r.gen_range(0..14) {
        0 => m[2] |= 0x80,                                   // QR set: no response, the connection must close
        1 => m.truncate(r.gen_range(0..12)),                 // shorter than a header: no response
        2 => { let k = r.gen_range(12..m.len()); m.truncate(k); } // FORMERR
        3 => m[5] = 2,                                       // two questions
        4 => push_additional(&mut m, &opt_rr(*[512u16, 1232, 4096].choose(r).unwrap(), 0, &[0], &[])),
        5 => m.clear(),                                      // an empty message (length prefix 0)
        6 => m[2] |= 4 << 3,                                 // NOTIFY: NOTIMP
        _ => {}
    }
    m
}

fn catalog() -> Arc<Cat> {
    let apex = nm("example.test.");
    let mut zone = HashMapTreeZone::new(apex.clone(), Class::IN, GluePolicy::Narrow);
    let mut soa = w("ns.example.test.");
    soa.extend(w("a.example.test."));
    for v in [1u32, 2, 3, 4, 60] { soa.extend_from_slice(&v.to_be_bytes()); }
    zone.add(&apex, Type::SOA, Class::IN, Ttl::from(60), soa.as_slice().try_into().unwrap()).unwrap();
    zone.add(&nm("www.example.test."), Type::A, Class::IN, Ttl::from(60), (&[1u8, 2, 3, 4][..]).try_into().unwrap()).unwrap();
    for i in 0..60u8 {
        let mut rd = vec![200u8];
        rd.extend(std::iter::repeat(b'a' + (i % 26)).take(199));
        rd.push(i);
        zone.add(&nm("big.example.test."), Type::TXT, Class::IN, Ttl::from(60), rd.as_slice().try_into().unwrap()).unwrap();
    }
    let mut cat = Cat::new();
    cat.insert(Entry::Loaded(Arc::new(zone), ()));
    Arc::new(cat)
}

fn direct(server: &Server<Cat>, req: &[u8], t: Transport) -> Vec<u8> {
    let mut buf = vec![0u8; 65535];
    match server.handle_message(req, ReceivedInfo::new(Ipv4Addr::LOCALHOST.into(), t), &mut buf) {
        Response::Single(n) => buf[..n].to_vec(),
        Response::None => Vec::new(),
    }
}

pub fn main(args: &[String]) {
    let seed: u64 = args[0].parse().unwrap();
    let n: usize = args[1].parse().unwrap();
    let mut out = Out::create(&args[2]);
    let mut r = StdRng::seed_from_u64(seed);
    let cat = catalog();
    // provider configurations: (name, tcp_base_workers, linger ms, udp workers)
    let configs: Vec<(&str, usize, u64, usize)> = vec![("blocking", 0, 0, 1), ("blocking", 2, 50, 2), ("blocking", 1, 0, 3), ("tokio", 0, 0, 0)];
    for (ci, (provider, base, linger, udpw)) in configs.into_iter().enumerate() {
        let slow_conn = ci == 1 || ci == 3;      // one blocking configuration and Tokio
        let payload = *[512u16, 1232, 4096].choose(&mut r).unwrap();
        let mut server = Server::new(cat.clone());
        server.set_edns_udp_payload_size(payload).unwrap();
        let server = Arc::new(server);
        let port = free_port();
        let addr: SocketAddr = (Ipv4Addr::LOCALHOST, port).into();
        let group = ThreadGroup::new();
        let rt = tokio::runtime::Builder::new_multi_thread().worker_threads(2).enable_all().build().unwrap();
        let mut tokio_ctl = None;
        if provider == "blocking" {
            let cfg = BlockingIoConfig { tcp_base_workers: base, tcp_worker_linger: Duration::from_millis(linger), udp_workers_per_socket: udpw };
            BlockingIoProvider::bind(cfg, [addr], [addr]).unwrap().start(&server, &group).unwrap();
        } else {
            let s2 = server.clone();
            tokio_ctl = Some(rt.block_on(async move { TokioIoProvider::bind([addr], [addr]).await.unwrap().start(&s2) }));
        }
        std::thread::sleep(Duration::from_millis(100));
        out.emit(json!({"ev": "Cfg", "provider": provider, "tcp_base_workers": base, "linger_ms": linger, "udp_workers": udpw, "payload": payload, "port": port}));
        // in the background: a connection whose requests are separated by waits that are each well within the 5 s read
        // timeout but add up to more than it (the timeout is per message)
        let slow = if slow_conn { let (server, provider) = (server.clone(), provider.to_string());
            Some(std::thread::spawn(move || slow_connection(&server, addr, &provider))) } else { None };
        for _ in 0..n {
            tcp_connection(&mut r, &server, addr, provider, &mut out);
            udp_exchange(&mut r, &server, addr, provider, port, payload, &mut out);
        }
        // one connection carrying more than 64 KiB of pipelined requests (the receive buffer is filled completely)
        big_pipeline(&mut r, &server, addr, provider, &mut out);
        if let Some(h) = slow { out.emit(h.join().unwrap()); }
        if provider == "blocking" {
            group.shut_down();
            group.await_shutdown();
        } else {
            drop(tokio_ctl);
        }
        drop(rt);
    }
    eprintln!("{} records", out.finish());
}

fn tcp_connection(r: &mut StdRng, server: &Arc<Server<Cat>>, addr: SocketAddr, provider: &str, out: &mut Out) {
    let k = r.gen_range(1..8);
    let reqs: Vec<Vec<u8>> = (0..k).map(|_| gen_req(r)).collect();
    let expected: Vec<Vec<u8>> = reqs.iter().map(|q| direct(server, q, Transport::Tcp)).collect();
    let mut stream_out: Vec<u8> = Vec::new();
    for q in &reqs {
        stream_out.extend_from_slice(&(q.len() as u16).to_be_bytes());
        stream_out.extend_from_slice(q);
    }
    let mut sock = TcpStream::connect(addr).unwrap();
    sock.set_nodelay(true).unwrap();
    let mut sent = 0;
    let mut write_failed = false;
    let mut segs = Vec::new();
    let pipelined = r.gen_bool(0.5);
    while sent < stream_out.len() {
        let cap = if pipelined { 70000 } else { *[1usize, 2, 3, 20, 4000].choose(r).unwrap() };
        let seg = r.gen_range(1..=(stream_out.len() - sent).min(cap));
        if sock.write_all(&stream_out[sent..sent + seg]).is_err() {
            // the server closed the connection (after a response-less request) while we were still sending: its kernel
            // answers further segments with RST, and a close with unread input discards what was still in its send
            // queue. The failed write consumes the socket error, so the reads below see a plain end of stream.
            write_failed = true;
            break;
        }
        segs.push(seg);
        sent += seg;
        if !pipelined && r.gen_bool(0.3) {
            std::thread::sleep(Duration::from_millis(r.gen_range(0..12)));
        }
    }
    let all_answered = expected.iter().all(|e| !e.is_empty());
    let want: usize = expected.iter().take_while(|e| !e.is_empty()).map(|e| e.len() + 2).sum();
    let mut got: Vec<u8> = Vec::new();
    let mut closed = false;
    let mut reset = false;
    let mut buf = vec![0u8; 70000];
    let is_reset = |e: &std::io::Error| matches!(e.kind(), std::io::ErrorKind::ConnectionReset | std::io::ErrorKind::ConnectionAborted | std::io::ErrorKind::BrokenPipe);
    // phase 1: read until the expected octets are there (or the server closes / 3 s pass)
    sock.set_read_timeout(Some(Duration::from_millis(15000))).unwrap();   // only ever reached when the server misbehaves or the machine is frozen
    loop {
        if got.len() >= want && all_answered {
            break;
        }
        match sock.read(&mut buf) {
            Ok(0) => { closed = true; break; }
            Ok(nr) => got.extend_from_slice(&buf[..nr]),
            Err(e) => { if is_reset(&e) { closed = true; reset = true; } break; }
        }
    }
    // phase 2: nothing more may arrive (each request is answered once)
    if !closed {
        sock.set_read_timeout(Some(Duration::from_millis(40))).unwrap();
        loop {
            match sock.read(&mut buf) {
                Ok(0) => { closed = true; break; }
                Ok(nr) => got.extend_from_slice(&buf[..nr]),
                Err(e) => { if is_reset(&e) { closed = true; reset = true; } break; }
            }
        }
    }
    out.emit(json!({"ev": "Tcp", "reset": reset || write_failed, "provider": provider, "reqs": reqs, "direct": expected, "segs": segs, "got": got, "closed": closed}));
}

/// 330 large requests (about 230 octets each) written in one go, read while writing so that neither side stalls.
fn big_pipeline(r: &mut StdRng, server: &Arc<Server<Cat>>, addr: SocketAddr, provider: &str, out: &mut Out) {
    let long = format!("{}.{}.{}.", "a".repeat(63), "b".repeat(63), "c".repeat(60));
    let reqs: Vec<Vec<u8>> = (0..330).map(|i| {
        let mut m = vec![(i >> 8) as u8, i as u8, 0, 0, 0, 1, 0, 0, 0, 0, 0, 0];
        m.extend_from_slice(&w(&long));
        m.extend_from_slice(&[0, *[1u8, 16].choose(r).unwrap(), 0, 1]);
        m
    }).collect();
    pipeline(reqs, 0, server, addr, provider, out);
    // requests of the largest sizes the two-octet length prefix can announce (an OPT record with a padding option)
    let maxreqs: Vec<Vec<u8>> = [65533usize, 65534, 65535].iter().map(|&total| {
        let mut m = vec![0xab, (total & 0xff) as u8, 0, 0, 0, 1, 0, 0, 0, 0, 0, 0];
        m.extend_from_slice(&w("www.example.test."));
        m.extend_from_slice(&[0, 1, 0, 1]);
        let padlen = total - m.len() - 11 - 4;
        let mut opt = vec![0, 12, (padlen >> 8) as u8, (padlen & 0xff) as u8];
        opt.extend(std::iter::repeat(0u8).take(padlen));
        push_additional(&mut m, &opt_rr(1232, 0, &[0], &opt));
        assert_eq!(m.len(), total);
        m
    }).collect();
    pipeline(maxreqs, 0, server, addr, provider, out);
    // a client that does not read for a while (small receive buffer): forty answers of 12 KiB pile up in the server's
    // send path, its socket stops taking whole responses at once
    // (forty answers = 480 KB stall the connection for as long as the kernel's send buffer has not grown; making a
    // non-blocking socket refuse part of a write takes more than its 4 MiB send buffer limit, and a 5 MB stream in one
    // trace record is more than TLC's JSON reader takes: tried, rc 75 - see DESIGN.md, gap C30-r3m1)
    let stalled: Vec<Vec<u8>> = (0..40u16).map(|i| {
        let mut m = vec![(i >> 8) as u8, i as u8, 0, 0, 0, 1, 0, 0, 0, 0, 0, 0];
        m.extend_from_slice(&w("big.example.test."));
        m.extend_from_slice(&[0, 16, 0, 1]);
        m
    }).collect();
    pipeline(stalled, 1500, server, addr, provider, out);
}

/// One connection, all requests written by one thread while another reads (after `stall_ms`, with a small receive
/// buffer when stalling); every request has a response.
fn pipeline(reqs: Vec<Vec<u8>>, stall_ms: u64, server: &Arc<Server<Cat>>, addr: SocketAddr, provider: &str, out: &mut Out) {
    let expected: Vec<Vec<u8>> = reqs.iter().map(|q| direct(server, q, Transport::Tcp)).collect();
    let mut stream_out: Vec<u8> = Vec::new();
    for q in &reqs {
        stream_out.extend_from_slice(&(q.len() as u16).to_be_bytes());
        stream_out.extend_from_slice(q);
    }
    let want: usize = expected.iter().map(|e| e.len() + 2).sum();
    let sock = TcpStream::connect(addr).unwrap();
    sock.set_nodelay(true).unwrap();
    if stall_ms > 0 {
        use std::os::unix::io::AsRawFd;
        let sz: libc::c_int = 4096;
        unsafe { libc::setsockopt(sock.as_raw_fd(), libc::SOL_SOCKET, libc::SO_RCVBUF, &sz as *const _ as *const libc::c_void, std::mem::size_of::<libc::c_int>() as libc::socklen_t); }
    }
    let mut wsock = sock.try_clone().unwrap();
    let writer = std::thread::spawn(move || wsock.write_all(&stream_out).is_ok());
    if stall_ms > 0 { std::thread::sleep(Duration::from_millis(stall_ms)); }
    let mut rsock = sock;
    rsock.set_read_timeout(Some(Duration::from_millis(15000))).unwrap();
    let mut got: Vec<u8> = Vec::new();
    let mut buf = vec![0u8; 70000];
    let mut closed = false;
    let mut reset = false;
    while got.len() < want {
        match rsock.read(&mut buf) {
            Ok(0) => { closed = true; break; }
            Ok(nr) => got.extend_from_slice(&buf[..nr]),
            Err(e) => { if matches!(e.kind(), std::io::ErrorKind::ConnectionReset | std::io::ErrorKind::ConnectionAborted | std::io::ErrorKind::BrokenPipe) { closed = true; reset = true; } break; }
        }
    }
    let wrote = writer.join().unwrap();
    // every request has a response here, so the server has no reason to close: a reset or a failed write is reported as is
    out.emit(json!({"ev": "Tcp", "provider": provider, "reset": false, "client_saw_reset": reset || !wrote, "reqs": [], "nreqs": reqs.len(), "direct": expected, "segs": [], "got": got, "closed": closed}));
}

/// Request; 0.7 s; request in two halves 2.6 s apart; 2.6 s; request: every message arrives well before its own 5 s deadline.
fn slow_connection(server: &Arc<Server<Cat>>, addr: SocketAddr, provider: &str) -> Value {
    let mk = |id: u8| { let mut m = vec![0, id, 0, 0, 0, 1, 0, 0, 0, 0, 0, 0]; m.extend_from_slice(&w("www.example.test.")); m.extend_from_slice(&[0, 1, 0, 1]); m };
    let reqs: Vec<Vec<u8>> = (1..=3).map(mk).collect();
    let expected: Vec<Vec<u8>> = reqs.iter().map(|q| direct(server, q, Transport::Tcp)).collect();
    let mut sock = TcpStream::connect(addr).unwrap();
    sock.set_nodelay(true).unwrap();
    sock.set_read_timeout(Some(Duration::from_millis(15000))).unwrap();
    let mut got: Vec<u8> = Vec::new();
    let mut closed = false;
    let mut buf = vec![0u8; 4096];
    for (i, q) in reqs.iter().enumerate() {
        // request 2 begins 0.7 s after response 1 and arrives in two halves 2.6 s apart (3.3 s of its own 5 s: 1.7 s of
        // slack for a loaded machine); request 3 follows an idle 2.6 s later: well within its own 5 s, but longer than
        // the 1.7 s request 2 left of its allowance
        if i == 1 { std::thread::sleep(Duration::from_millis(700)); }
        if i == 2 { std::thread::sleep(Duration::from_millis(2600)); }
        let mut framed = (q.len() as u16).to_be_bytes().to_vec();
        framed.extend_from_slice(q);
        let half = if i == 1 { framed.len() / 2 } else { framed.len() };
        if sock.write_all(&framed[..half]).is_err() { closed = true; break; }
        if half < framed.len() {
            std::thread::sleep(Duration::from_millis(2600));
            if sock.write_all(&framed[half..]).is_err() { closed = true; break; }
        }
        let want = got.len() + expected[i].len() + 2;
        while got.len() < want {
            match sock.read(&mut buf) {
                Ok(0) => { closed = true; break; }
                Ok(nr) => got.extend_from_slice(&buf[..nr]),
                Err(_) => break,
            }
        }
        if closed { break; }
    }
    json!({"ev": "Tcp", "provider": provider, "reset": false, "slow": true, "reqs": reqs, "direct": expected, "segs": [], "got": got, "closed": closed})
}

fn udp_exchange(r: &mut StdRng, server: &Arc<Server<Cat>>, addr: SocketAddr, provider: &str, port: u16, payload: u16, out: &mut Out) {
    let us = UdpSocket::bind(("127.0.0.1", 0)).unwrap();
    let q = gen_req(r);
    let exp = direct(server, &q, Transport::Udp);
    us.send_to(&q, addr).unwrap();
    let mut datagrams: Vec<Value> = Vec::new();
    let mut buf = vec![0u8; 70000];
    us.set_read_timeout(Some(Duration::from_millis(if exp.is_empty() { 120 } else { 15000 }))).unwrap();
    loop {
        match us.recv_from(&mut buf) {
            Ok((nr, from)) => {
                datagrams.push(json!({"data": buf[..nr].to_vec(), "from_port": from.port()}));
                us.set_read_timeout(Some(Duration::from_millis(40))).unwrap();
            }
            Err(_) => break,
        }
        if datagrams.len() >= 3 { break; }
    }
    out.emit(json!({"ev": "Udp", "provider": provider, "req": q, "direct": exp, "port": port, "payload": payload, "got": datagrams}));
}
