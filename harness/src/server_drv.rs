//! Server-level drivers (C01-C05, C07-C10): drive the real `Server::handle_message`
//! with requests of one *profile* and log raw octets. The harness has no DNS
//! decoder and no reference resolver: TLC judges the records.

use std::collections::HashMap;
use std::net::{IpAddr, Ipv4Addr};
use std::sync::Arc;

use quandary::message::tsig::Algorithm;
use quandary::server::{RrlParams, Server, Transport, TsigKeyMap};
use rand::rngs::StdRng;
use rand::seq::SliceRandom;
use rand::{Rng, SeedableRng};
use serde_json::{json, Value};

use crate::common::*;
use crate::gen::*;

const SRC: IpAddr = IpAddr::V4(Ipv4Addr::LOCALHOST);

struct Key {
    name: String,
    alg: Alg,
    secret: Vec<u8>,
}

struct Session {
    server: Server<Cat>,
    /// (owner in wire form, type, class) of every record of the catalog
    rrsets: Vec<(Vec<u8>, u16, u16)>,
    names: Vec<String>,
    classes: Vec<u16>,
    keys: Vec<Key>,
    payload: u16,
}

fn new_session(r: &mut StdRng, out: &mut Out, o: ZoneOpts, multi_class: bool, nkeys: usize, rrl: bool, payloads: &[u16]) -> Session {
    let g = gen_catalog(r, o, multi_class);
    let mut server = Server::new(Arc::new(g.cat));
    let payload = *payloads.choose(r).unwrap();
    server.set_edns_udp_payload_size(payload).unwrap();
    let mut keys = Vec::new();
    let mut map: TsigKeyMap = HashMap::new();
    let key_names = ["tsig.elsewhere.", "key1.example.", "k.", "key2.test.", "a-rather-long-key-name.with.several.labels.example."];
    for i in 0..nkeys {
        let alg = if r.gen_bool(0.5) { Alg::Sha1 } else { Alg::Sha256 };
        let secret: Vec<u8> = (0..r.gen_range(1..65)).map(|_| r.gen()).collect();
        let name = key_names[i % key_names.len()].to_string();
        map.insert(nm(&name), (if alg == Alg::Sha1 { Algorithm::HmacSha1 } else { Algorithm::HmacSha256 }, secret.clone().into_boxed_slice()));
        keys.push(Key { name, alg, secret });
    }
    server.set_tsig_keys(Arc::new(map));
    if rrl {
        let mut p = RrlParams::new(r.gen_range(1..4), r.gen_range(1..4), r.gen_range(1..4), r.gen_range(1..3)).unwrap();
        p.set_slip(r.gen_range(0..3));
        server.set_rrl_params(Some(p));
    }
    let jkeys: Vec<Value> = keys.iter().map(|k| json!({"name": w(&k.name), "alg": k.alg.tag(), "secret": k.secret})).collect();
    out.emit(json!({"ev": "Cfg", "catalog": g.cfg, "payload": payload, "keys": jkeys, "rrl": rrl, "strict": !o.weird}));
    let mut rrsets: Vec<(Vec<u8>, u16, u16)> = Vec::new();
    for z in &g.cfg {
        let class = z["class"].as_u64().unwrap() as u16;
        for rec in z["records"].as_array().unwrap() {
            let owner: Vec<u8> = rec["owner"].as_array().unwrap().iter().map(|o| o.as_u64().unwrap() as u8).collect();
            let t = (owner, rec["type"].as_u64().unwrap() as u16, class);
            if !rrsets.contains(&t) { rrsets.push(t); }
        }
    }
    Session { server, rrsets, names: g.names, classes: g.classes, keys, payload }
}

fn query_names(s: &Session) -> Vec<String> {
    let mut q: Vec<String> = Vec::new();
    for n in &s.names {
        q.push(n.clone());
        if n.len() < 200 {
            q.push(if n == "." { "zz.".into() } else { format!("zz.{}", n) });
            q.push(if n == "." { "a.".into() } else { format!("a.{}", n) });
            if n.len() < 100 { q.push(if n == "." { "x.y.".into() } else { format!("x.y.{}", n) }); }
        }
    }
    q.sort();
    q.dedup();
    q
}

const TYPES: [u16; 12] = [1, 2, 5, 6, 15, 16, 28, 33, 255, 99, 12, 65280];

fn base_query_t(r: &mut StdRng, qn: &str, types: &[u16], class: u16) -> Vec<u8> {
    let ty = *types.choose(r).unwrap();
    base_query(r, qn, ty, class)
}

fn base_query(r: &mut StdRng, qn: &str, ty: u16, class: u16) -> Vec<u8> {
    let q = Query { id: r.gen(), flags: if r.gen_bool(0.5) { 0x0100 } else { 0 }, qname: w(&rand_case(r, qn)), qtype: ty, qclass: class };
    q.encode()
}

fn emit_req(s: &Session, out: &mut Out, m: &[u8], t: Transport, twin: bool) {
    emit_on(&s.server, out, m, t, twin);
}

/// One request; over UDP optionally with its TCP twin (the complete response to the same octets). The twin is only
/// attached when both calls fell into the same second of the server's clock, so that time-dependent TSIG outcomes
/// (BADTIME at the edge of the fudge window) are the same for both.
fn emit_on<C: quandary::db::Catalog>(server: &Server<C>, out: &mut Out, m: &[u8], t: Transport, twin: bool) {
    let mut rec = handle(server, m, t, SRC);
    if twin && t == Transport::Udp {
        let tw = handle(server, m, Transport::Tcp, SRC);
        if tw["out"] == "resp" && tw["t1"] == rec["t0"] {
            rec["tcp"] = tw["resp"].clone();
        }
    }
    out.emit(rec);
}

fn pick_transport(r: &mut StdRng) -> Transport {
    if r.gen_bool(0.7) { Transport::Udp } else { Transport::Tcp }
}

// ---------------------------------------------------------------- profiles

/// C05: well-formed queries around the catalog's names.
fn resolve(r: &mut StdRng, out: &mut Out, ncat: usize, per_name: usize, o: ZoneOpts) {
    for _ in 0..ncat {
        let s = new_session(r, out, o, true, 0, false, &[1232, 4096, 512]);
        for qn in query_names(&s) {
            for _ in 0..per_name {
                // (the starts of the alias chains: mostly the types whose answers get additional-section processing)
                let ty = if qn.starts_with("ch") && r.gen_bool(0.6) { *[15u16, 33, 2, 15, 33].choose(r).unwrap() } else { *TYPES.choose(r).unwrap() };
                let class = if r.gen_bool(0.8) { 1 } else { *s.classes.choose(r).unwrap() };
                let mut m = base_query(r, &qn, ty, class);
                if r.gen_bool(0.3) {
                    push_additional(&mut m, &opt_rr(*[0u16, 512, 1232, 4096].choose(r).unwrap(), 0, &[0], &[]));
                }
                emit_req(&s, out, &m, pick_transport(r), true);
            }
        }
    }
}

/// C04: big answers, random advertised payload sizes, UDP with TCP twin.
fn size(r: &mut StdRng, out: &mut Out, ncat: usize, per_name: usize) {
    many_targets_session(r, out);
    let o = ZoneOpts { big: true, weird: false, chains: false };
    for ci in 0..ncat {
        // every other session (the first included) with a server size of 4096, so that complete responses of 514..4096
        // octets can be matched to the octet by the advertised size; the others with sizes from the whole range
        let pl: Vec<u16> = if ci % 2 == 0 { vec![4096] } else { vec![512u16, 513, 600, 1232, 1500, 4096, 16384, 65535, r.gen_range(512..=65535)] };
        let s = new_session(r, out, o, false, 0, false, &pl);
        let mut exact = 0;
        for qn in query_names(&s) {
            for _ in 0..per_name {
                let ty = *[1u16, 1, 1, 2, 16, 28, 255, 15].choose(r).unwrap();
                let mut m = base_query(r, &qn, ty, 1);
                if r.gen_bool(0.7) {
                    let adv: u16 = match r.gen_range(0..6) { 0 => 0, 1 => 511, 2 => 512, 3 => r.gen(), 4 => s.payload.saturating_add(1), _ => r.gen_range(400..3000) };
                    push_additional(&mut m, &opt_rr(adv, 0, &[0], &[]));
                }
                emit_req(&s, out, &m, Transport::Udp, true);
                // the advertised size swept across the exact length of the complete (TCP) response: for the first twelve
                // queries of the session whose complete response lies between 512 octets and the server's size, then now and then
                let probe = handle(&s.server, &{ let mut t = base_query(r, &qn, ty, 1); push_additional(&mut t, &opt_rr(65535, 0, &[0], &[])); t }, Transport::Tcp, SRC);
                let pl = probe["resp"].as_array().map(|a| a.len()).unwrap_or(0);
                let fits_window = pl >= 514 && pl <= s.payload as usize;
                if (fits_window && exact < 12) || r.gen_bool(0.06) {
                    if fits_window { exact += 1; }
                    let base = base_query(r, &qn, ty, 1);
                    let full = handle(&s.server, &{ let mut t = base.clone(); push_additional(&mut t, &opt_rr(65535, 0, &[0], &[])); t }, Transport::Tcp, SRC);
                    let l = full["resp"].as_array().map(|a| a.len()).unwrap_or(0) as i64;
                    for d in [-2i64, -1, 0, 1] {
                        let adv = l + d;
                        if adv >= 512 && adv <= 65535 {
                            let mut m2 = base.clone();
                            push_additional(&mut m2, &opt_rr(adv as u16, 0, &[0], &[]));
                            emit_req(&s, out, &m2, Transport::Udp, true);
                        }
                    }
                }
            }
        }
    }
}

/// C02 / C13, responses longer than 16 KiB: a wildcard MX RRset of 175 pairs of targets a.<h>.huge.test. /
/// b.<h>.huge.test. (<h> = one 60-octet label per pair): the second target of a pair is compressed against the first
/// one's <h> label. The QNAME's prefix labels are sized so that the <h> label of one pair starts exactly at offset 16384
/// (and, for the neighbouring sizes, just before / after it): there it must not be a compression target, a 14-bit
/// pointer reaches 16383 at most. TCP only.
fn huge_session(r: &mut StdRng, out: &mut Out, around: &[i64], straddle: bool) {
    use quandary::db::catalog::Entry;
    use quandary::db::zone::GluePolicy;
    let apex = "huge.test.";
    let mut soa = w("ns.huge.test.");
    soa.extend(w("admin.huge.test."));
    for v in [1u32, 2, 3, 4, 60] { soa.extend_from_slice(&v.to_be_bytes()); }
    let mut recs = vec![
        Rec { owner: apex.into(), ty: 6, ttl: 60, rdata: soa },
        Rec { owner: apex.into(), ty: 2, ttl: 60, rdata: w("ns.huge.test.") },
        Rec { owner: "ns.huge.test.".into(), ty: 1, ttl: 60, rdata: vec![192, 0, 2, 1] },
    ];
    for i in 0..(if straddle { 168u32 } else { 175 }) {
        for ab in ["a", "b"] {
            let t = format!("{}.h{:03}{}.huge.test.", ab, i, "x".repeat(56));
            let mut rd = vec![(i >> 8) as u8, (i & 255) as u8];
            rd.extend(w(&t));
            recs.push(Rec { owner: "*.huge.test.".into(), ty: 15, ttl: 60, rdata: rd });
        }
    }
    // ... and two last targets, A = mx.<63 u>.<63 v>.huge.test. and B = <63 p>.<63 q>.mx.a.b.huge.test.: when A's first label
    // lies just below offset 16384 and its second one above, A straddles the reach of a pointer; B, written next, has the
    // label "mx" in the column of A's first label and different labels where A's unreachable ones are: it must not be
    // compressed against A (p.q + pointer to A would be a name of 263 octets)
    for t in [format!("mx.{}.{}.huge.test.", "u".repeat(63), "v".repeat(63)), format!("{}.{}.mx.a.b.huge.test.", "p".repeat(63), "q".repeat(63))] {
        if !straddle { break; }
        let mut rd = vec![1, 0];
        rd.extend(w(&t));
        recs.push(Rec { owner: "*.huge.test.".into(), ty: 15, ttl: 60, rdata: rd });
    }
    let (zone, jrecs, _) = build_zone(apex, 1, &recs, GluePolicy::Narrow);
    let mut cat = Cat::new();
    cat.insert(Entry::Loaded(Arc::new(zone), ()));
    let server = Server::new(Arc::new(cat));
    out.emit(json!({"ev": "Cfg", "catalog": [{"name": w(apex), "class": 1, "state": "loaded", "records": jrecs}], "payload": 1232, "keys": [], "rrl": false, "strict": true}));
    // the straddling alignment: record A starts after 175 pairs (97 octets each), its RDATA name 14 octets further on;
    // its first label ("mx", 3 octets) at 16381, 16382 or 16383 puts the second label above 16383
    if straddle {
        let start_of_a = |p: i64| 12 + p + 11 + 4 + 168 * 97 + 14;
        for want in [16382i64, 16381, 16383] {
            if let Some(p) = (2..=120i64).find(|p| start_of_a(*p) == want) {
                let qn = if p <= 64 { format!("{}.huge.test.", "s".repeat(p as usize - 1)) } else { format!("{}.{}.huge.test.", "s".repeat(62), "t".repeat(p as usize - 64)) };
                let m = base_query(r, &qn, 15, 1);
                emit_on(&server, out, &m, Transport::Tcp, false);
            }
            if around.len() <= 1 { break; }
        }
    }
    // a pair = (2 + 10 + 2 + "a" 2 + <h> 61 + pointer 2) + (2 + 10 + 2 + "b" 2 + pointer 2) = 79 + 18 = 97 octets; the first
    // record starts right after the question (12 + prefix + 11 + 4), its <h> label 16 octets further on
    let base = |p: i64| 12 + p + 11 + 4 + 16;
    if straddle { return; }
    let p0 = (2..=120i64).find(|p| (16384 - base(*p)) % 97 == 0).unwrap();
    for d in around {
        let p = p0 + d;
        if p < 2 || p > 126 { continue; }
        // prefix of p octets on the wire: one or two labels
        let qn = if p <= 64 { format!("{}.huge.test.", "q".repeat(p as usize - 1)) } else { format!("{}.{}.huge.test.", "q".repeat(62), "r".repeat(p as usize - 64)) };
        let m = base_query(r, &qn, 15, 1);
        emit_on(&server, out, &m, Transport::Tcp, false);
    }
}

/// C02 / C04: additional-section processing beyond the sixteen hinted targets. An NS RRset (apex) and an MX RRset of
/// nineteen targets: sixteen ordinary ones, then `ns.mt.test.` with forty addresses, then `a.ns.mt.test.` (below the
/// former) and `z.mt.test.` with one address each. With the advertised size between "the forty addresses do not fit"
/// and "the later ones do", the writer rolls the seventeenth target's addresses back (a tolerated truncation) and goes
/// on writing names that share labels with what it has just rolled back.
fn many_targets_session(r: &mut StdRng, out: &mut Out) {
    use quandary::db::catalog::Entry;
    use quandary::db::zone::GluePolicy;
    let apex = "mt.test.";
    let mut soa = w("t01.mt.test.");
    soa.extend(w("admin.mt.test."));
    for v in [1u32, 2, 3, 4, 60] { soa.extend_from_slice(&v.to_be_bytes()); }
    let mut recs = vec![Rec { owner: apex.into(), ty: 6, ttl: 60, rdata: soa }];
    let mut targets: Vec<String> = (1..=16).map(|i| format!("t{:02}.mt.test.", i)).collect();
    // (b.ns after a.ns: one more owner written without a hint right after the name that was written next to the roll-back)
    targets.extend(["ns.mt.test.".to_string(), "a.ns.mt.test.".to_string(), "b.ns.mt.test.".to_string(), "z.mt.test.".to_string()]);
    // the MX RRset has the other shape: after the sixteen, three siblings below a name that is not itself a target
    // (a.x with forty addresses, b.x, c.x): the name written next to the roll-back is a sibling, not a child
    let mut mx_targets: Vec<String> = targets[..16].to_vec();
    mx_targets.extend(["a.x.mt.test.".to_string(), "b.x.mt.test.".to_string(), "c.x.mt.test.".to_string(), "y.mt.test.".to_string()]);
    for (i, t) in targets.iter().enumerate() {
        recs.push(Rec { owner: apex.into(), ty: 2, ttl: 60, rdata: w(t) });
        let naddr = if t == "ns.mt.test." { 40 } else { 1 };
        for k in 0..naddr { recs.push(Rec { owner: t.clone(), ty: 1, ttl: 60, rdata: vec![10, 1, i as u8, k as u8] }); }
    }
    for (i, t) in mx_targets.iter().enumerate() {
        let mut rd = vec![0, i as u8];
        rd.extend(w(t));
        recs.push(Rec { owner: "mx.mt.test.".into(), ty: 15, ttl: 60, rdata: rd });
        if i >= 16 {
            let naddr = if t == "a.x.mt.test." { 40 } else { 1 };
            for k in 0..naddr { recs.push(Rec { owner: t.clone(), ty: 1, ttl: 60, rdata: vec![10, 2, i as u8, k as u8] }); }
        }
    }
    let (zone, jrecs, _) = build_zone(apex, 1, &recs, GluePolicy::Narrow);
    let mut cat = Cat::new();
    cat.insert(Entry::Loaded(Arc::new(zone), ()));
    let mut server = Server::new(Arc::new(cat));
    server.set_edns_udp_payload_size(4096).unwrap();
    out.emit(json!({"ev": "Cfg", "catalog": [{"name": w(apex), "class": 1, "state": "loaded", "records": jrecs}], "payload": 4096, "keys": [], "rrl": false, "strict": true}));
    for (qn, ty) in [("mt.test.", 2u16), ("mx.mt.test.", 15)] {
        let base = base_query(r, qn, ty, 1);
        let full = handle(&server, &{ let mut t = base.clone(); push_additional(&mut t, &opt_rr(4096, 0, &[0], &[])); t }, Transport::Tcp, SRC);
        let l0 = full["resp"].as_array().map(|a| a.len()).unwrap_or(0) as i64;
        // prefix before the seventeenth target's addresses = complete length - 40 x 16 - 3 x 16 - OPT
        let p = l0 - 640 - 48 - 11;
        for x in [p + 27, p + 60, p + 300, p + 640, p + 650, p + 651, l0] {
            if x < 512 || x > 4096 { continue; }
            let mut m = base.clone();
            push_additional(&mut m, &opt_rr(x as u16, 0, &[0], &[]));
            emit_on(&server, out, &m, Transport::Udp, true);
        }
    }
}

/// C07: catalogs with nested entries in several classes and states; QNAME x QCLASS x QTYPE x opcode.
fn dispatch(r: &mut StdRng, out: &mut Out, ncat: usize, n: usize) {
    let o = ZoneOpts { big: false, weird: false, chains: false };
    for _ in 0..ncat {
        let s = new_session(r, out, o, true, 0, false, &[1232]);
        let qns = query_names(&s);
        for _ in 0..n {
            let qn = qns.choose(r).unwrap();
            let ty = *[1u16, 2, 6, 255, 251, 252, 253, 254, 250, 41, 0, 65535, 16].choose(r).unwrap();
            let class = *[1u16, 1, 3, 4, 255, 254, 0, 65280, 2].choose(r).unwrap();
            let mut m = base_query(r, qn, ty, class);
            if r.gen_bool(0.4) {
                let opcode: u8 = r.gen_range(0..16);
                m[2] = (m[2] & 0x87) | (opcode << 3);
            }
            // opcodes whose requests need not carry a question (QDCOUNT 0, and 2): the opcode decides before the question does
            match r.gen_range(0..12) {
                0 => { m[5] = 0; m.truncate(12); }
                1 => { m[5] = 2; let q2 = m[12..].to_vec(); m.extend_from_slice(&q2); }
                _ => {}
            }
            // requests that carry records of their own (NOTIFY with the new SOA, IXFR with the client's SOA, an UPDATE):
            // one or two plain records in the answer or authority section
            if r.gen_bool(0.15) && m[5] == 1 {
                let (a, n) = *[(1u8, 0u8), (0, 1), (2, 0), (1, 1), (0, 2)].choose(r).unwrap();
                m[7] = a; m[9] = n;
                for _ in 0..(a + n) { m.extend(rr(&[0xc0, 0x0c], 6, 1, 60, &{ let mut v = w("ns.example.test."); v.extend(w("a.example.test.")); v.extend_from_slice(&[0; 20]); v })); }
            }
            if r.gen_bool(0.2) { push_additional(&mut m, &opt_rr(1232, 0, &[0], &[])); }
            emit_req(&s, out, &m, pick_transport(r), false);
        }
        // names that are not subdomains of a catalog entry although their octets end like one: a label whose last
        // octets are <length octet of the apex's first label><that label>
        for apex in s.names.clone() {
            if apex == "." { continue; }
            let aw = w(&apex);
            let first_len = aw[0] as usize;
            if first_len + 2 > 63 { continue; }
            let mut q = vec![(first_len + 2) as u8, b'x'];
            q.extend_from_slice(&aw[..1 + first_len]);
            q.extend_from_slice(&aw[1 + first_len..]);
            if q.len() > 255 { continue; }
            for ty in [1u16, 6] {
                let mut m = Query { id: r.gen(), flags: 0, qname: q.clone(), qtype: ty, qclass: 1 }.encode();
                if r.gen_bool(0.3) { push_additional(&mut m, &opt_rr(1232, 0, &[0], &[])); }
                emit_req(&s, out, &m, pick_transport(r), false);
            }
        }
    }
}

/// C07 with the other Catalog implementation: a server over a SingleZoneCatalog (one zone; everything else is REFUSED).
fn dispatch_single(r: &mut StdRng, out: &mut Out, n: usize) {
    use quandary::db::catalog::Entry;
    use quandary::db::zone::GluePolicy;
    use quandary::db::SingleZoneCatalog;
    let o = ZoneOpts { big: false, weird: false, chains: false };
    let apex = *["example.test.", "a-label-of-more-than-sixteen-octets.test.", "test."].choose(r).unwrap();
    let class = *[1u16, 1, 3].choose(r).unwrap();
    let recs = gen_zone(r, apex, class, &[], o);
    let (zone, jrecs, mut names) = build_zone(apex, class, &recs, GluePolicy::Narrow);
    let server = Server::new(Arc::new(SingleZoneCatalog::new(Entry::Loaded(Arc::new(zone), ()))));
    out.emit(json!({"ev": "Cfg", "catalog": [{"name": w(apex), "class": class, "state": "loaded", "records": jrecs}], "payload": 1232, "keys": [], "rrl": false, "strict": true}));
    names.push(apex.to_string());
    names.extend(["test.", "other.", ".", "xexample.test.", "ample.test."].iter().map(|s| s.to_string()));
    let mut qnames: Vec<Vec<u8>> = names.iter().map(|n| w(n)).collect();
    // not subdomains of the zone although their octets end like its name
    if let Some(t) = tail_trick_wire(&w(apex)) { qnames.push(t.clone()); let mut v = vec![1, b'a']; v.extend(t); qnames.push(v); }
    for _ in 0..n {
        let qn = qnames.choose(r).unwrap().clone();
        let ty = *[1u16, 2, 6, 255, 252, 16].choose(r).unwrap();
        let qclass = *[1u16, 1, 3, 255, 254, 4].choose(r).unwrap();
        let mut m = Query { id: r.gen(), flags: 0, qname: qn, qtype: ty, qclass }.encode();
        if r.gen_bool(0.2) { let opcode: u8 = r.gen_range(0..16); m[2] = (m[2] & 0x87) | (opcode << 3); }
        emit_on(&server, out, &m, pick_transport(r), false);
    }
    for qn in &qnames {
        let m = Query { id: r.gen(), flags: 0, qname: qn.clone(), qtype: 1, qclass: class }.encode();
        emit_on(&server, out, &m, pick_transport(r), false);
    }
}

/// C03: every combination of the 16 header flag bits (sampled in quick mode), QDCOUNT 0/1/2, mixed-case QNAMEs.
fn header(r: &mut StdRng, out: &mut Out, stride: usize) {
    let o = ZoneOpts { big: false, weird: false, chains: false };
    let s = new_session(r, out, o, false, 0, false, &[1232]);
    let mut qns = query_names(&s);
    // boundary QNAMEs: labels of exactly 63 octets (first / second / last label), a name of exactly 255 octets
    let l63: String = std::iter::repeat('L').take(63).collect();
    let l61: String = std::iter::repeat('m').take(61).collect();
    qns.push(format!("{}.example.test.", l63));
    qns.push(format!("www.{}.example.test.", l63));
    qns.push(format!("a.{}.", l63));
    qns.push(format!("{}.{}.{}.{}.", l63, l63, l63, l61));
    let mut fl: usize = r.gen_range(0..stride);
    while fl < 65536 {
        let qn = qns.choose(r).unwrap();
        let mut m = base_query_t(r, qn, &[1u16, 2, 16, 255], 1);
        m[2] = (fl >> 8) as u8;
        m[3] = (fl & 0xff) as u8;
        match r.gen_range(0..10) {
            0 => { m[5] = 0; m.truncate(12); }
            1 => { m[5] = 2; let q2 = m[12..].to_vec(); m.extend_from_slice(&q2); }
            2 => { m[5] = 2; }
            _ => {}
        }
        emit_req(&s, out, &m, pick_transport(r), false);
        fl += stride;
    }
    // short messages and compressed / odd QNAMEs
    for len in 0..14 {
        let m: Vec<u8> = (0..len).map(|i| if i == 2 { 0 } else { r.gen() }).collect();
        emit_req(&s, out, &m, pick_transport(r), false);
    }
}

fn plain_rr(r: &mut StdRng) -> Vec<u8> {
    let mut owner: Vec<u8> = match r.gen_range(0..4) { 0 => vec![0xc0, 0x0c], 1 => vec![1, b'x', 0], 2 => vec![0], _ => vec![3, b'w', b'w', b'w', 0xc0, 0x0c] };
    if r.gen_bool(0.08) {
        // an owner of 253..257 octets: ended by the root, or by a pointer to the QNAME (which then makes it longer still)
        let total = r.gen_range(253usize..=257);
        owner = Vec::new();
        let mut left = total - 1;
        while left > 1 { let ll = (left - 1).min(*[63usize, 20, 1].choose(r).unwrap()); owner.push(ll as u8); for _ in 0..ll { owner.push(b'o'); } left -= ll + 1; }
        if r.gen_bool(0.7) { owner.push(0); } else { owner.extend_from_slice(&[0xc0, 0x0c]); }
    }
    let ty = *[1u16, 1, 16, 2, 65280].choose(r).unwrap();
    let rd: Vec<u8> = (0..r.gen_range(0..8)).map(|_| r.gen()).collect();
    rr(&owner, ty, 1, r.gen(), &rd)
}

fn mutate_one(r: &mut StdRng, s: &Session, out: &mut Out, base: &[u8], t: Transport) {
    let mut m = base.to_vec();
    match r.gen_range(0..16) {
        0 => {
            // truncation at every offset
            for k in 0..=base.len() { emit_req(s, out, &base[..k], t, false); }
            return;
        }
        1 => { for _ in 0..r.gen_range(1..21) { m.push(r.gen()); } }
        2 => { let which = *[5usize, 7, 9, 11].choose(r).unwrap(); m[which] = *[0u8, 1, 2, 3, 255].choose(r).unwrap(); }
        3 => { let which = *[4usize, 6, 8, 10].choose(r).unwrap(); m[which] = *[1u8, 255].choose(r).unwrap(); }
        4 => {
            if r.gen_bool(0.5) { m[2] |= 0x80; } else {
                // counts that only overflow together: ANCOUNT + NSCOUNT >= 65536
                let an: u16 = *[0xffffu16, 0x8000, 0xfffe].choose(r).unwrap();
                let ns: u16 = (0x10000u32 - an as u32) as u16 + r.gen_range(0..2);
                m[6..8].copy_from_slice(&an.to_be_bytes());
                m[8..10].copy_from_slice(&ns.to_be_bytes());
            }
        }
        5 => { m[2] = (r.gen_range(0..16u8) << 3) | (m[2] & 1); m[3] = r.gen(); }
        6 => {
            let ttl: u32 = *[0u32, 0x00010000, 0x80010000, 0x80000000, 0x00008000, 0xff000000, 0x00ff0000, 0x7f000000, 0x8000_8000].choose(r).unwrap();
            push_additional(&mut m, &opt_rr(*[0u16, 100, 512, 1232, 4096, 65535].choose(r).unwrap(), ttl, &[0], &[]));
        }
        7 => {
            // an OPT whose owner is not the root, alone or together with a second fault (unsupported version, bad option list):
            // the malformed record is FORMERR whatever else is wrong with it
            let ttl: u32 = match r.gen_range(0..3) { 0 => 0, 1 => (r.gen_range(1..=255u32)) << 16, _ => 0x0001_8000 };
            let rd: Vec<u8> = if r.gen_bool(0.2) { vec![0, 10, 0, 5, 1] } else { vec![] };
            push_additional(&mut m, &opt_rr(1232, ttl, &[1, b'a', 0], &rd));
        }
        8 => { push_additional(&mut m, &opt_rr(1232, 0, &[0], &[])); push_additional(&mut m, &opt_rr(r.gen(), 0, &[0], &[])); }
        9 => { let sec = *[7usize, 9].choose(r).unwrap(); m[sec] = 1; m.extend(opt_rr(1232, 0, &[0], &[])); }
        10 => {
            let rd: Vec<u8> = match r.gen_range(0..4) { 0 => vec![0, 10, 0, 2, 1, 2], 1 => vec![0, 10, 0, 5, 1], 2 => vec![0, 1, 0], _ => vec![0, 8, 0, 0, 0, 3, 0, 1, 9] };
            push_additional(&mut m, &opt_rr(1232, 0, &[0], &rd));
        }
        11 | 12 => {
            // extra plain RRs in all sections, optionally followed by OPT
            let (a, n, x) = (r.gen_range(0..3u8), r.gen_range(0..2u8), r.gen_range(0..3u8));
            m[7] = a; m[9] = n; m[11] = x;
            for _ in 0..(a + n + x) { m.extend(plain_rr(r)); }
            if r.gen_bool(0.5) { push_additional(&mut m, &opt_rr(4096, 0, &[0], &[])); }
            if r.gen_bool(0.3) { m.extend(plain_rr(r)); m[11] += 1; }
            if r.gen_bool(0.2) { let k = r.gen_range(1..6); m.truncate(m.len() - k); }
        }
        13 => {
            // unsigned / garbage TSIG in various places
            let rd: Vec<u8> = (0..r.gen_range(0..40)).map(|_| r.gen()).collect();
            let rec = rr(&w("key1.example."), 250, *[255u16, 1].choose(r).unwrap(), *[0u32, 1].choose(r).unwrap(), &rd);
            if r.gen_bool(0.7) { push_additional(&mut m, &rec); } else { m[7] = 1; m.extend(rec); }
            if r.gen_bool(0.3) { push_additional(&mut m, &plain_rr(r)); }
        }
        14 => {
            // random byte flips
            for _ in 0..r.gen_range(1..4) { let i = r.gen_range(0..m.len()); m[i] ^= 1 << r.gen_range(0..8); }
        }
        _ => { let n = r.gen_range(0..40); m = (0..n).map(|_| r.gen()).collect(); if m.len() > 2 { m[2] &= 0x7f; } }
    }
    emit_req(s, out, &m, t, false);
}

/// C08: mutated requests.
fn mutate(r: &mut StdRng, out: &mut Out, ncat: usize, n: usize) {
    let o = ZoneOpts { big: false, weird: false, chains: false };
    for _ in 0..ncat {
        let s = new_session(r, out, o, false, 1, false, &[1232, 512, 4096]);
        let qns = query_names(&s);
        for _ in 0..n {
            let qn = qns.choose(r).unwrap();
            let base = base_query_t(r, qn, &TYPES, 1);
            let t = pick_transport(r);
            mutate_one(r, &s, out, &base, t);
        }
    }
}

/// C09: OPT records everywhere, all versions, flags, owners, payload sizes.
fn edns(r: &mut StdRng, out: &mut Out, ncat: usize, n: usize) {
    let o = ZoneOpts { big: false, weird: false, chains: false };
    for _ in 0..ncat {
        let pl = [512, 1232, 4096, 65535, r.gen_range(512..=65535)];
        let s = new_session(r, out, o, false, 0, false, &pl);
        let qns = query_names(&s);
        for _ in 0..n {
            let qn = qns.choose(r).unwrap();
            let mut m = base_query_t(r, qn, &TYPES, 1);
            let nopt = *[1usize, 1, 1, 1, 2, 0].choose(r).unwrap();
            let section = *[11usize, 11, 11, 11, 11, 11, 7, 9].choose(r).unwrap();
            let before = r.gen_range(0..3u8);
            let after = r.gen_range(0..2u8);
            let mut body = Vec::new();
            let mut cnt = 0u8;
            for _ in 0..before { body.extend(plain_rr(r)); cnt += 1; }
            for _ in 0..nopt {
                let version: u8 = if r.gen_bool(0.6) { 0 } else { r.gen() };
                let ext: u8 = *[0u8, 0, 0x80, 0xff, 1].choose(r).unwrap();
                let flags: u16 = if r.gen_bool(0.5) { 0 } else { r.gen() };
                let ttl = ((ext as u32) << 24) | ((version as u32) << 16) | flags as u32;
                let owner: Vec<u8> = match r.gen_range(0..10) { 0 => vec![1, b'a', 0], 1 => vec![0xc0, 0x0c], 2 => vec![0xc0, (m.len() - 5) as u8], _ => vec![0] };
                let rd: Vec<u8> = match r.gen_range(0..8) { 0 => vec![0, 10, 0, 2, 1, 2], 1 => vec![0, 10, 0, 5, 1], 2 => vec![0, 3, 0, 0], _ => vec![] };
                body.extend(opt_rr(r.gen_range(0..=65535u32) as u16, ttl, &owner, &rd));
                cnt += 1;
            }
            for _ in 0..after { body.extend(plain_rr(r)); cnt += 1; }
            m[section] = cnt;
            m.extend(body);
            emit_req(&s, out, &m, pick_transport(r), false);
        }
    }
}

/// C10: signed requests and broken variants.
/// A hand-made session for signed responses that are emptied after names were written into RDATA: the apex of
/// `prov.test.` has NS, SOA, an MX whose target lies under the same foreign domain as the TSIG key's name, and a TXT
/// RRset that overflows 512 octets; ANY / TXT / MX queries over UDP without EDNS, correctly signed.
fn crafted_tsig_session(r: &mut StdRng, out: &mut Out) {
    use quandary::db::catalog::Entry;
    use quandary::db::zone::GluePolicy;
    let apex = "prov.test.";
    let mut soa = w("ns.prov.test.");
    soa.extend(w("admin.prov.test."));
    for v in [1u32, 2, 3, 4, 60] { soa.extend_from_slice(&v.to_be_bytes()); }
    let mut recs = vec![
        Rec { owner: apex.into(), ty: 6, ttl: 60, rdata: soa },
        Rec { owner: apex.into(), ty: 2, ttl: 60, rdata: w("ns.prov.test.") },
        Rec { owner: apex.into(), ty: 15, ttl: 60, rdata: { let mut v = vec![0, 10]; v.extend(w("mail.elsewhere.")); v } },
        Rec { owner: "alias.prov.test.".into(), ty: 5, ttl: 60, rdata: w("big.cdn.elsewhere.") },
    ];
    for i in 0..3u8 {
        let mut rd = vec![200u8];
        rd.extend(std::iter::repeat(b'p' + i).take(200));
        recs.push(Rec { owner: apex.into(), ty: 16, ttl: 60, rdata: rd });
    }
    let (zone, jrecs, _) = build_zone(apex, 1, &recs, GluePolicy::Narrow);
    let mut cat = Cat::new();
    cat.insert(Entry::Loaded(Arc::new(zone), ()));
    let mut server = Server::new(Arc::new(cat));
    server.set_edns_udp_payload_size(1232).unwrap();
    let long_key = format!("{}.{}.{}.{}.keys.example.", "k".repeat(60), "l".repeat(60), "m".repeat(60), "n".repeat(50));
    let keys = [("tsig.elsewhere.".to_string(), Alg::Sha256, b"crafted-secret-1".to_vec()), ("key.cdn.elsewhere.".to_string(), Alg::Sha1, b"crafted-secret-2".to_vec()),
                (long_key, Alg::Sha256, b"crafted-secret-3".to_vec())];
    let mut map: TsigKeyMap = HashMap::new();
    for (name, alg, secret) in &keys {
        map.insert(nm(name), (if *alg == Alg::Sha1 { Algorithm::HmacSha1 } else { Algorithm::HmacSha256 }, secret.clone().into_boxed_slice()));
    }
    server.set_tsig_keys(Arc::new(map));
    let jkeys: Vec<Value> = keys.iter().map(|(n, a, s)| json!({"name": w(n), "alg": a.tag(), "secret": s})).collect();
    out.emit(json!({"ev": "Cfg", "catalog": [{"name": w(apex), "class": 1, "state": "loaded", "records": jrecs}], "payload": 1232, "keys": jkeys, "rrl": false, "strict": true}));
    // a known key with a long name, a correctly signed request whose time is far outside the fudge window (BADTIME: the
    // error TSIG carries six octets of other-data), and the advertised payload size swept across the point where the
    // signed error response just fits
    {
        let (name, alg, secret) = &keys[2];
        let qn = format!("{}.{}.{}.{}.prov.test.", "q".repeat(60), "r".repeat(60), "s".repeat(60), "t".repeat(55));
        let total = 12 + (w(&qn).len() + 4) + 11 + (w(name).len() + 10 + w(alg.name()).len() + 16 + alg.out_len() + 6);
        assert!(total > 560, "the sweep must lie above the 512-octet floor");
        for adv in (total as u16 - 14)..=(total as u16 + 4) {
            let mut m = base_query(r, &qn, 1, 1);
            push_additional(&mut m, &opt_rr(adv, 0, &[0], &[]));
            let p = TsigParams { key_name: w(name), alg_name: w(alg.name()), time: unix_now() - 100_000, fudge: 300,
                                 orig_id: u16::from_be_bytes([m[0], m[1]]), error: 0, other: vec![], class: 255, ttl: 0 };
            tsig_sign(&mut m, &p, *alg, secret, None);
            out.emit(handle(&server, &m, Transport::Udp, SRC));
        }
    }
    for (name, alg, secret) in &keys {
        for (qn, ty) in [("prov.test.", 255u16), ("prov.test.", 16), ("prov.test.", 15), ("alias.prov.test.", 1), ("prov.test.", 2)] {
            for t in [Transport::Udp, Transport::Tcp] {
                let mut m = base_query(r, qn, ty, 1);
                let p = TsigParams { key_name: w(name), alg_name: w(alg.name()), time: unix_now(), fudge: 300,
                                     orig_id: u16::from_be_bytes([m[0], m[1]]), error: 0, other: vec![], class: 255, ttl: 0 };
                tsig_sign(&mut m, &p, *alg, secret, None);
                emit_on(&server, out, &m, t, true);
            }
            // the advertised payload size swept across the exact length of the complete signed response: a signed
            // response that fits is not truncated, one that does not fit is (UDP with TCP twin)
            let sign = |m: &mut Vec<u8>| {
                let p = TsigParams { key_name: w(name), alg_name: w(alg.name()), time: unix_now(), fudge: 300,
                                     orig_id: u16::from_be_bytes([m[0], m[1]]), error: 0, other: vec![], class: 255, ttl: 0 };
                tsig_sign(m, &p, *alg, secret, None);
            };
            let base = base_query(r, qn, ty, 1);
            let mut probe = base.clone();
            push_additional(&mut probe, &opt_rr(1232, 0, &[0], &[]));
            sign(&mut probe);
            let full = handle(&server, &probe, Transport::Tcp, SRC);
            let l = full["resp"].as_array().map(|a| a.len()).unwrap_or(0) as i64;
            for d in -8i64..=2 {
                let adv = l + d;
                if adv >= 513 && adv <= 1232 {
                    let mut m = base.clone();
                    push_additional(&mut m, &opt_rr(adv as u16, 0, &[0], &[]));
                    sign(&mut m);
                    emit_on(&server, out, &m, Transport::Udp, true);
                }
            }
        }
    }
}

fn tsig(r: &mut StdRng, out: &mut Out, ncat: usize, n: usize) {
    crafted_tsig_session(r, out);
    for ci in 0..ncat {
        // every other session (the first included) has fat RRsets and delegations: signed responses that are truncated / emptied
        let o = ZoneOpts { big: ci % 2 == 0, weird: false, chains: false };
        let nk = r.gen_range(1..4);
        let s = new_session(r, out, o, false, nk, false, if ci % 2 == 0 { &[1232] } else { &[1232, 512] });
        let qns = query_names(&s);
        for _ in 0..n {
            let qn = qns.choose(r).unwrap();
            let mut m = base_query_t(r, qn, &[1u16, 2, 16, 6, 255, 15], 1);
            if r.gen_bool(0.4) { push_additional(&mut m, &opt_rr(1232, 0, &[0], &[])); }
            let k = s.keys.choose(r).unwrap();
            // one defect, or (35%) two different defects at once: the order in which the server applies its checks
            // (key, MAC size, MAC, time) only shows when a request fails two of them
            let variant = r.gen_range(0..16);
            let mut variants = vec![variant];
            if r.gen_bool(0.35) { let v2 = r.gen_range(1..15); if v2 != variant { variants.push(v2); } }
            let mut key_name = k.name.clone();
            if r.gen_bool(0.3) { key_name = key_name.to_uppercase(); }
            let mut alg = k.alg;
            let mut alg_name = w(alg.name());
            if r.gen_bool(0.2) { alg_name = w(&alg.name().to_uppercase()); }
            let mut secret = k.secret.clone();
            let mut p = TsigParams { key_name: w(&key_name), alg_name: alg_name.clone(), time: unix_now(), fudge: 300,
                orig_id: if r.gen_bool(0.8) { u16::from_be_bytes([m[0], m[1]]) } else { r.gen() }, error: 0, other: vec![], class: 255, ttl: 0 };
            let mut mac_len: Option<usize> = None;
            let mut extra_after = false;
            let mut tamper: Option<usize> = None;
            for variant in variants.clone() { match variant {
                1 => { secret = (0..secret.len()).map(|_| r.gen()).collect(); }
                2 => { p.key_name = w("nokey.example."); }
                3 => { p.alg_name = w("hmac-md5.sig-alg.reg.int."); }
                4 => { alg = if alg == Alg::Sha1 { Alg::Sha256 } else { Alg::Sha1 }; p.alg_name = w(alg.name()); }
                5 => { mac_len = Some(r.gen_range(0..=alg.out_len() + 2)); }
                6 => {
                    let d = *[298i64, 299, 300, 301, 302, 1000, -299, -300, -301, -5000, 1_000_000, -1_000_000].choose(r).unwrap();
                    p.time = (p.time as i64 + d).max(0) as u64;
                }
                7 => { tamper = Some(r.gen_range(0..m.len())); }
                8 => { if r.gen_bool(0.5) { p.class = *[1u16, 254].choose(r).unwrap(); } else { p.ttl = *[5u32, 0x8000_0000, 1].choose(r).unwrap(); } }
                9 => { extra_after = true; }
                10 => { p.fudge = *[0u16, 1, 2].choose(r).unwrap(); p.time = p.time.saturating_sub(r.gen_range(0..3)); }
                11 => { p.other = (0..r.gen_range(1..8)).map(|_| r.gen()).collect(); }
                12 => {
                    // far outside the window; also the present plus a multiple of 2^32 whose bits all occur in bits 16..31
                    // of the present (a 48-bit time put together from the wrong halves reads that as "now")
                    let now = unix_now();
                    let k = (now >> 16) & 0xffff;
                    p.time = *[0u64, 1 << 31, (1 << 32) + 5, (1 << 47) + 1, now + (k << 32), now + ((k & k.wrapping_neg()) << 32), now + (1 << 32)].choose(r).unwrap();
                }
                13 => { p.error = *[16u16, 17, 18, 1].choose(r).unwrap(); }
                14 => {
                    // an algorithm "name" of 255 (maximal), 256 or 257 octets on the wire (the last two are not names)
                    let last = *[61usize, 62, 63].choose(r).unwrap();
                    let mut v = Vec::new();
                    for n in [63usize, 63, 63, last] { v.push(n as u8); v.extend(std::iter::repeat(b'a').take(n)); }
                    v.push(0);
                    p.alg_name = v;
                }
                _ => {}
            } }
            tsig_sign(&mut m, &p, alg, &secret, mac_len);
            if let Some(i) = tamper {
                // flip one bit of the covered message after signing
                m[i] ^= 1 << r.gen_range(0..8);
            }
            if extra_after { push_additional(&mut m, &plain_rr(r)); }
            let mut rec = handle(&s.server, &m, pick_transport(r), SRC);
            rec["variant"] = json!(variants);
            out.emit(rec);
        }
        // correctly signed queries whose answer overflows after records with names in their RDATA were written
        // (apex ANY / NS / MX of the fat zone over UDP without EDNS): the emptied, signed TC response
        if o.big {
            for k in &s.keys {
                for (qn, ty) in [("example.test.", 255u16), ("example.test.", 255), ("fat.example.test.", 2), ("x.fat.example.test.", 1), ("example.test.", 16), ("x.manyns.example.test.", 1), ("manyns.example.test.", 2)] {
                    let mut m = base_query(r, qn, ty, 1);
                    let p = TsigParams { key_name: w(&k.name), alg_name: w(k.alg.name()), time: unix_now(), fudge: 300,
                                         orig_id: u16::from_be_bytes([m[0], m[1]]), error: 0, other: vec![], class: 255, ttl: 0 };
                    tsig_sign(&mut m, &p, k.alg, &k.secret, None);
                    emit_req(&s, out, &m, Transport::Udp, true);
                }
            }
        }
        // TSIG whose error response cannot fit a 512-octet UDP message (maximal key and algorithm names)
        let long = |c: char| -> String { let l: String = std::iter::repeat(c).take(61).collect(); format!("{}.{}.{}.{}.", l, l, l, &l[..57]) };
        for t in [Transport::Udp, Transport::Tcp] {
            let mut m = base_query(r, &long('q'), 1, 1);
            if r.gen_bool(0.5) { let q = qns.choose(r).unwrap().clone(); m = base_query(r, &q, 1, 1); }
            let p = TsigParams { key_name: w(&long('k')), alg_name: w(&long('a')), time: unix_now(), fudge: 300, orig_id: 7, error: 0, other: vec![], class: 255, ttl: 0 };
            tsig_sign(&mut m, &p, Alg::Sha256, b"x", None);
            out.emit(handle(&s.server, &m, t, SRC));
            // known algorithm, unknown long key
            let mut m2 = base_query(r, &long('q'), 1, 1);
            let p2 = TsigParams { key_name: w(&long('k')), alg_name: w("hmac-sha256."), time: unix_now(), fudge: 300, orig_id: 7, error: 0, other: vec![], class: 255, ttl: 0 };
            tsig_sign(&mut m2, &p2, Alg::Sha256, b"x", None);
            out.emit(handle(&s.server, &m2, t, SRC));
        }
        // OPT + TSIG with maximal names: the advertised payload size swept across the point where the TSIG error
        // record just fits (header 12 + question 259 + OPT 11 + TSIG 294 = 576)
        for adv in (548u16..=604).step_by(if r.gen_bool(0.5) { 1 } else { 3 }) {
            let mut m3 = base_query(r, &long('q'), 1, 1);
            push_additional(&mut m3, &opt_rr(adv, 0, &[0], &[]));
            let known_key = r.gen_bool(0.3);
            let k = &s.keys[0];
            let p3 = TsigParams { key_name: if known_key { w(&k.name) } else { w(&long('k')) }, alg_name: w(if known_key { k.alg.name() } else { "hmac-sha256." }), time: unix_now(), fudge: 300,
                                  orig_id: u16::from_be_bytes([m3[0], m3[1]]), error: 0, other: vec![], class: 255, ttl: 0 };
            tsig_sign(&mut m3, &p3, if known_key { k.alg } else { Alg::Sha256 }, if known_key { &k.secret } else { b"x" }, None);
            out.emit(handle(&s.server, &m3, Transport::Udp, SRC));
        }
    }
}

/// C01/C02: everything above in small doses plus tiny exhaustive messages, random octets,
/// catalogs that validation would reject, RRL on.
fn total(r: &mut StdRng, out: &mut Out, scale: usize) {
    // (a) exhaustive tiny messages: 12..=14 octets, counts in {0,1}, body over the 12-symbol alphabet
    let alpha = [0u8, 1, 2, 3, 63, 64, b'a', b'A', 0xC0, 0xC1, 0xFF, 12];
    {
        let o = ZoneOpts { big: false, weird: false, chains: false };
        let s = new_session(r, out, o, false, 1, false, &[1232]);
        for counts in 0..16u8 {
            for extra in 0..=2usize {
                let nbody = alpha.len().pow(extra as u32);
                for b in 0..nbody {
                    let mut m = vec![0x12, 0x34, 0, 0, 0, counts & 1, 0, (counts >> 1) & 1, 0, (counts >> 2) & 1, 0, (counts >> 3) & 1];
                    let mut x = b;
                    for _ in 0..extra { m.push(alpha[x % alpha.len()]); x /= alpha.len(); }
                    let t = if (b + counts as usize) % 2 == 0 { Transport::Udp } else { Transport::Tcp };
                    emit_req(&s, out, &m, t, false);
                }
            }
        }
    }
    // (b) sessions mixing every request family, on ordinary and on weird catalogs, with and without RRL
    for i in 0..scale {
        let weird = i % 2 == 1;
        let o = ZoneOpts { big: i % 5 == 4, weird, chains: true };
        let rrl = i % 3 == 2;
        let s = new_session(r, out, o, true, i % 4, rrl, &[512, 1232, 4096, 65535]);
        let qns = query_names(&s);
        for _ in 0..60 {
            let qn = qns.choose(r).unwrap();
            let class = if r.gen_bool(0.8) { 1 } else { *s.classes.choose(r).unwrap() };
            let base = base_query_t(r, qn, &TYPES, class);
            let t = pick_transport(r);
            match r.gen_range(0..4) {
                0 => emit_req(&s, out, &base, t, false),
                1 | 2 => mutate_one(r, &s, out, &base, t),
                _ => {
                    // uniformly random strings, with a plausible header
                    let n = r.gen_range(0..80);
                    let mut m: Vec<u8> = (0..n).map(|_| r.gen()).collect();
                    if m.len() >= 12 && r.gen_bool(0.7) { m[2] &= 0x07; for k in [4usize, 6, 8, 10] { m[k] = 0; } for k in [5usize, 7, 9, 11] { m[k] &= 1; } }
                    emit_req(&s, out, &m, t, false);
                }
            }
        }
        // catalogs that validation would reject: every RRset is asked for once by name, type and class (a malformed
        // record is only reached by the query that makes the server write it or process its RDATA)
        if weird {
            let mut sets = s.rrsets.clone();
            sets.shuffle(r);
            for (owner, ty, class) in sets.into_iter().take(60) {
                let m = Query { id: r.gen(), flags: 0, qname: owner, qtype: ty, qclass: class }.encode();
                emit_req(&s, out, &m, pick_transport(r), false);
            }
        }
        // a signed request per session when keys exist (valid and with long names)
        if let Some(k) = s.keys.first() {
            let q = qns.choose(r).unwrap().clone();
            let mut m = base_query(r, &q, 1, 1);
            let p = TsigParams { key_name: w(&k.name), alg_name: w(k.alg.name()), time: unix_now(), fudge: 300, orig_id: 1, error: 0, other: vec![], class: 255, ttl: 0 };
            tsig_sign(&mut m, &p, k.alg, &k.secret, None);
            for cut in [m.len(), m.len() - 1, m.len() - 17] { emit_req(&s, out, &m[..cut], pick_transport(r), false); }
        }
    }
}

pub fn main(args: &[String]) {
    let profile = args[0].as_str();
    let seed: u64 = args[1].parse().unwrap();
    let scale: usize = args[2].parse().unwrap();
    let mut out = Out::create(&args[3]);
    let mut r = StdRng::seed_from_u64(seed);
    silence_panics();
    match profile {
        "resolve" => resolve(&mut r, &mut out, scale, 2, ZoneOpts { big: false, weird: false, chains: true }),
        "size" => size(&mut r, &mut out, scale, 2),
        // responses beyond 16 KiB: the alignment that puts a name at offset 16384 and its neighbours (all 21 alignments from scale 4 on)
        "huge" => { let all: Vec<i64> = (-10..=10).collect(); let ar: &[i64] = if scale >= 4 { &all } else if scale >= 1 { &[0, 1, -1] } else { &[0] };
                    huge_session(&mut r, &mut out, ar, false); huge_session(&mut r, &mut out, ar, true); }
        "dispatch" => { dispatch(&mut r, &mut out, scale, 150); for _ in 0..(scale / 4).max(2) { dispatch_single(&mut r, &mut out, 80); } }
        "header" => header(&mut r, &mut out, scale),
        "mutate" => mutate(&mut r, &mut out, scale, 60),
        "edns" => edns(&mut r, &mut out, scale, 100),
        "tsig" => tsig(&mut r, &mut out, scale, 100),
        "total" => total(&mut r, &mut out, scale),
        _ => panic!("unknown profile {}", profile),
    }
    let n = out.finish();
    eprintln!("server/{}: {} records", profile, n);
}
