//! C12 / C13: random operation sequences on the real message Writer (needs the verif_state hook).
use std::panic::{catch_unwind, AssertUnwindSafe};

use quandary::class::Class;
use quandary::message::writer::{CompressionMode, Hint, HintedName};
use quandary::message::{ExtendedRcode, Opcode, Question, Rcode, Writer};
use quandary::name::Name;
use quandary::rr::{Rdata, RdataSetOwned, Ttl, Type};
use rand::rngs::StdRng;
use rand::seq::SliceRandom;
use rand::{Rng, SeedableRng};
use serde_json::{json, Value};

use crate::common::*;

fn errname(e: quandary::message::writer::Error) -> &'static str {
    use quandary::message::writer::Error::*;
    match e { CountOverflow => "CountOverflow", Truncation => "Truncation", OutOfOrder => "OutOfOrder", InvalidRdata => "InvalidRdata",
              NotEdns => "NotEdns", AlreadyEdns => "AlreadyEdns", ExtendedRcodeOverflow => "ExtendedRcodeOverflow", NotTsig => "NotTsig",
              AlreadyTsig => "AlreadyTsig", NotSignedTsig => "NotSignedTsig" }
}

/// (G) qv writer replay <histories> <out>: one record per TLC-generated history of MC_WriterSpace. Every action is
/// carried out on a real Writer over a 140-octet buffer with records that cannot be compressed (root owner, opaque
/// RDATA; questions with names that share nothing), so that the model's sizes are exact; after each call the
/// (cursor, available, limit) triple (verif_state hook) and the result are recorded, finish() records the length.
fn replay(hist: &str, outp: &str) {
    use quandary::message::tsig::{Algorithm, PreparedTsigRr};
    use quandary::rr::rdata::TimeSigned;
    use quandary::message::writer::TsigMode;
    let text = std::fs::read_to_string(hist).expect("cannot read histories");
    let mut out = Out::create(outp);
    for line in text.lines().filter(|l| !l.trim().is_empty()) {
        let h: Vec<Value> = serde_json::from_str(line).expect("bad history line");
        // every buffer a history uses lives until the end of the process (a Writer borrows its buffer; Retemplate moves
        // the message into a new one)
        let mut ops: Vec<Value> = Vec::new();
        let mut fin: i64 = 0;
        let mut final_octets: Vec<u8> = Vec::new();
        let res = catch_unwind(AssertUnwindSafe(|| {
            let first: &'static mut [u8] = Box::leak(vec![0xEEu8; 140].into_boxed_slice());
            let mut cur_len = 140usize;
            let mut cur_ptr: *const u8 = first.as_ptr();       // to read the finished octets back (the buffers are leaked, never freed)
            let mut w = Writer::new(first, 140).unwrap();
            let mut nq = 0u32;
            for a in &h {
                let a = a.as_array().unwrap();
                let name = a[0].as_str().unwrap();
                let arg = a.get(1).and_then(|v| v.as_u64()).unwrap_or(0) as usize;
                let r: &'static str = match name {
                    "AddQuestion" => {
                        // qname of arg - 4 octets on the wire: the root, or one label that no other question shares
                        let qname: Box<Name> = if arg == 5 { Name::root().to_owned() } else {
                            let mut v = vec![(arg - 6) as u8];
                            for i in 0..(arg - 6) { v.push(b'a' + ((nq as usize * 7 + i) % 26) as u8); }
                            v.push(0);
                            name_of_wire(&v)
                        };
                        nq += 1;
                        let q = Question { qname, qtype: 1.into(), qclass: Class::IN.into() };
                        w.add_question(&q).map(|_| "ok").unwrap_or_else(errname)
                    }
                    "AddRR" => {
                        let rd = vec![7u8; arg - 11];
                        let rdata: &Rdata = rd.as_slice().try_into().unwrap();
                        w.add_answer_rr(HintedName::new(Hint::None, Name::root()), 65280.into(), Class::IN, Ttl::from(1), rdata, None).map(|_| "ok").unwrap_or_else(errname)
                    }
                    "SetLimit" => { w.set_limit(arg); "ok" }
                    "SetEdns" => w.set_edns(1232).map(|_| "ok").unwrap_or_else(errname),
                    "SetTsig" => {
                        // HMAC-SHA256: signed_len = key name + 13 (algorithm name) + 26 + 32
                        let kl = arg - 71;
                        let mut kn = Vec::new();
                        if kl > 1 { kn.push((kl - 2) as u8); for _ in 0..(kl - 2) { kn.push(b'k'); } }
                        kn.push(0);
                        let prep = PreparedTsigRr { key_name: name_of_wire(&kn).into(), time_signed: TimeSigned::try_from_unix_time(1_000_000).unwrap(), fudge: 300,
                            original_id: 7, error: ExtendedRcode::from(0), server_time: TimeSigned::try_from_unix_time(1_000_000).unwrap() };
                        w.set_tsig(TsigMode::Request { algorithm: Algorithm::HmacSha256, key: b"secret".to_vec().into() }, prep).map(|_| "ok").unwrap_or_else(errname)
                    }
                    "Clear" => { w.clear_rrs(); "ok" }
                    "Retemplate" => {
                        let t = w.into_template();
                        let nb: &'static mut [u8] = Box::leak(vec![0xEEu8; arg].into_boxed_slice());
                        let nb_ptr = nb.as_ptr();
                        match Writer::try_from_template(nb, &t) {
                            Ok(w2) => { w = w2; cur_len = arg; cur_ptr = nb_ptr; "ok" }
                            Err(e) => {
                                // refused: the message lives on in a buffer of the size it had (which changes nothing)
                                let ob: &'static mut [u8] = Box::leak(vec![0xEEu8; cur_len].into_boxed_slice());
                                cur_ptr = ob.as_ptr();
                                w = Writer::try_from_template(ob, &t).expect("a template fits a buffer of the size it came from");
                                errname(e)
                            }
                        }
                    }
                    "Finish" => {
                        let st = w.verif_state();
                        let n = w.finish();
                        let octets = unsafe { std::slice::from_raw_parts(cur_ptr, n) }.to_vec();
                        ops.push(json!({"op": "Finish", "arg": 0, "res": "ok", "cursor": st.0, "avail": st.1, "limit": st.2, "fin": n}));
                        fin = n as i64;
                        final_octets = octets;
                        return;
                    }
                    x => panic!("unknown action {}", x),
                };
                let r = match r { "AlreadyEdns" | "AlreadyTsig" => "Already", x => x };
                let st = w.verif_state();
                ops.push(json!({"op": name, "arg": arg, "res": r, "cursor": st.0, "avail": st.1, "limit": st.2, "fin": 0}));
            }
        }));
        out.emit(json!({"ev": "WS", "ops": ops, "fin": fin, "out": if res.is_ok() { "ok" } else { "panic" }, "final": final_octets}));
    }
    eprintln!("writer/replay: {} records", out.finish());
}

pub fn main(args: &[String]) {
    silence_panics();
    if args[0] == "replay" {
        return replay(&args[1], &args[2]);
    }
    let seed: u64 = args[0].parse().unwrap();
    let nseq: usize = args[1].parse().unwrap();
    let mut out = Out::create(&args[2]);
    let mut r = StdRng::seed_from_u64(seed);
    let names: Vec<Box<Name>> = ["example.test.", "www.example.test.", "WWW.Example.TEST.", "a.www.example.test.", "mail.example.test.", "b.a.www.example.test.",
        "other.net.", "x.", ".", "ns1.example.test.", "NS2.example.test.", "deep.er.a.www.example.test.", "www.beta.test."].iter().map(|s| nm(s)).collect();
    for _ in 0..nseq {
        // now and then a message that crosses offset 16384 (the reach of a 14-bit compression pointer): a first record with
        // opaque RDATA brings the cursor to just below it, the random operations that follow write their names around it
        let far = r.gen_bool(0.05);
        let far_owner = if r.gen_bool(0.6) { 1 } else { 7 };
        let buflen = if far { 20000 } else { *[40usize, 100, 300, 512, 4096].choose(&mut r).unwrap() };
        let limit = if far || r.gen_bool(0.5) { buflen } else { r.gen_range(12..=buflen) };
        let mut buf = vec![0xEEu8; buflen];
        let mut ops: Vec<Value> = Vec::new();
        let res = catch_unwind(AssertUnwindSafe(|| {
            let mut w = Writer::new(&mut buf[..], limit).unwrap();
            let mut qname: Option<Box<Name>> = None;
            let mut last_owner: Option<Box<Name>> = None;
            let mut last_rd_name: Option<Box<Name>> = None;
            let mut explicit: Vec<(Box<Name>, quandary::message::writer::HintPointer)> = Vec::new();
            let nops = r.gen_range(3..40);
            for opi in 0..nops {
                // far: the second operation writes www.example.test. in full right after the filler, so that one of its labels
                // starts at (or next to) offset 16384; what follows refers to it
                let force_owner = far && (opi == 1 || opi == 2);
                // (far: mostly records afterwards, and neither clear_rrs nor set_limit, which would discard the long message)
                let k = if force_owner { 50 } else if far { let k = r.gen_range(0..100); if (75..80).contains(&k) || k >= 92 || r.gen_bool(0.5) { r.gen_range(28..75) } else { k } } else { r.gen_range(0..100) };
                let mut op: Value;
                let st0 = w.verif_state();
                if far && opi == 0 {
                    let rdlen = 16384 - 12 - 11 - *[0usize, 4, 12, 0, 4, 12, 1, 2, 3, 1, 2, 3, 5, 13, 11, 16, 30].choose(&mut r).unwrap();
                    let rd: Vec<u8> = (0..rdlen).map(|i| (i % 251) as u8).collect();
                    let rdata: &Rdata = rd.as_slice().try_into().unwrap();
                    let res = w.add_answer_rr(HintedName::new(Hint::None, Name::root()), 65280.into(), Class::IN, Ttl::from(0), rdata, None);
                    if res.is_ok() { last_owner = Some(Name::root().to_owned()); }
                    op = json!({"op": "rr", "sec": 0, "owner": [0], "hint": "none", "type": 65280, "class": 1, "ttl": 0, "rdatas": [rd], "res": res.map(|_| "ok").unwrap_or_else(errname)});
                } else if k < 8 {
                    let (f, v) = (r.gen_range(0..6), r.gen_bool(0.5));
                    match f { 0 => w.set_qr(v), 1 => w.set_aa(v), 2 => w.set_tc(v), 3 => w.set_rd(v), 4 => w.set_ra(v), _ => { w.set_id(if v { 0xBEEF } else { 7 }); } }
                    op = json!({"op": "flag", "f": f, "v": v, "res": "ok"});
                } else if k < 12 {
                    let oc = r.gen_range(0..16u8); w.set_opcode(Opcode::try_from(oc).unwrap()); op = json!({"op": "opcode", "v": oc, "res": "ok"});
                } else if k < 16 {
                    let rc = r.gen_range(0..16u8); w.set_rcode(Rcode::try_from(rc).unwrap()); op = json!({"op": "rcode", "v": rc, "res": "ok"});
                } else if k < 20 {
                    let rc: u16 = *[0u16, 16, 17, 255, 2047, 2048, 4095, 4096, 65535].choose(&mut r).unwrap();
                    let res = w.set_extended_rcode(ExtendedRcode::from(rc));
                    op = json!({"op": "xrcode", "v": rc, "res": res.map(|_| "ok").unwrap_or_else(errname)});
                } else if k < 28 {
                    let n = names.choose(&mut r).unwrap().clone(); let qt: u16 = *[1u16, 28, 255, 65280].choose(&mut r).unwrap();
                    let q = Question { qname: n.clone(), qtype: qt.into(), qclass: Class::IN.into() };
                    let first = w.qdcount() == 0;
                    let res = w.add_question(&q);
                    if res.is_ok() && first { qname = Some(n.clone()); }
                    op = json!({"op": "question", "name": n.wire_repr().to_vec(), "qtype": qt, "qclass": 1, "res": res.map(|_| "ok").unwrap_or_else(errname)});
                } else if k < 75 {
                    let sec = if force_owner { 0 } else { r.gen_range(0..3) };
                    // far: the same owner twice (www.example.test. or the one-label x.), the second time mostly with the
                    // "most recent owner" hint: a pointer to where the first one starts
                    let owner = if force_owner { names[far_owner].clone() }
                                else if last_rd_name.is_some() && r.gen_bool(0.25) { last_rd_name.clone().unwrap() }
                                else if !explicit.is_empty() && r.gen_bool(0.1) { explicit.choose(&mut r).unwrap().0.clone() }
                                else { names.choose(&mut r).unwrap().clone() };
                    // truthful hints only
                    let mut hint = Hint::None; let mut hint_s = "none";
                    if let Some(q) = &qname { if **q == *owner && r.gen_bool(0.5) { hint = Hint::Qname; hint_s = "qname"; } }
                    if hint_s == "none" { if let Some(lo) = &last_owner { if **lo == *owner && (r.gen_bool(0.5) || (force_owner && r.gen_bool(0.6))) { hint = Hint::MostRecentOwner; hint_s = "owner"; } } }
                    // the other two truthful hints: the most recent name the writer is known to have written inside RDATA
                    // (compressible or not: NS .. MX targets, SOA RNAME, SRV target, CH A name), and an explicit pointer
                    // handed out by an earlier add for exactly this name
                    if hint_s == "none" { if let Some(ln) = &last_rd_name { if **ln == *owner && r.gen_bool(0.6) { hint = Hint::MostRecentNameInRdata; hint_s = "rdname"; } } }
                    if hint_s == "none" { if let Some((_, p)) = explicit.iter().rev().find(|(n, _)| **n == *owner) { if r.gen_bool(0.6) { hint = Hint::Explicit(*p); hint_s = "explicit"; } } }
                    // (a name that was just written in some RDATA is a likely next owner: that is what the hints are for)
                    // (far: the first name after the filler straddles offset 16384 for some alignments; a name that shares its
                    // first label and differs further on must not be compressed against it)
                    let target = if force_owner && r.gen_bool(0.4) { names[12].clone() } else { names.choose(&mut r).unwrap().clone() };
                    let second = names.choose(&mut r).unwrap().clone();
                    let kind = if force_owner { r.gen_range(1..5) } else { r.gen_range(0..9) };
                    let (ty, class, rd): (u16, u16, Vec<u8>) = match kind {
                        0 => (1, 1, vec![192, 0, 2, r.gen()]),
                        1 => (2, 1, target.wire_repr().to_vec()),
                        2 => (5, 1, target.wire_repr().to_vec()),
                        3 => { let mut v = vec![0, 10]; v.extend_from_slice(target.wire_repr()); (15, 1, v) }
                        4 => { let mut v = target.wire_repr().to_vec(); v.extend_from_slice(second.wire_repr()); v.extend_from_slice(&[0; 20]); (6, 1, v) }
                        5 => { let mut v = vec![0, 1, 0, 2, 0, 53]; v.extend_from_slice(target.wire_repr()); (33, 1, v) }
                        6 => (65280, 1, target.wire_repr().to_vec()),
                        7 => { let mut v = target.wire_repr().to_vec(); v.extend_from_slice(&[1, 2]); (1, 3, v) } // CH A
                        _ => (2, 1, vec![3, b'b', b'a']), // invalid NS rdata
                    };
                    let ttl: u32 = *[0u32, 60, 2147483647].choose(&mut r).unwrap();
                    let rset = r.gen_bool(0.3);
                    let hn = HintedName::new(hint, &owner);
                    let rdata: &Rdata = rd.as_slice().try_into().unwrap();
                    let mut hpv = quandary::message::writer::HintPointerVec::new();
                    let (res, n_rd, rd2) = if rset {
                        let rd2: Vec<u8> = match ty { 1 if class == 1 => vec![192, 0, 2, 200], _ => rd.clone() };
                        let rdata2: &Rdata = rd2.as_slice().try_into().unwrap();
                        let set = RdataSetOwned::from_iter(Class::from(class), Type::from(ty), [rdata, rdata2]).unwrap();
                        let n = set.iter().count();
                        let res = match sec { 0 => w.add_answer_rrset(hn, ty.into(), class.into(), Ttl::from(ttl), &set, None),
                                             1 => w.add_authority_rrset(hn, ty.into(), class.into(), Ttl::from(ttl), &set, None),
                                             _ => w.add_additional_rrset(hn, ty.into(), class.into(), Ttl::from(ttl), &set, None) };
                        (res, n, rd2)
                    } else {
                        let res = match sec { 0 => w.add_answer_rr(hn, ty.into(), class.into(), Ttl::from(ttl), rdata, Some(&mut hpv)),
                                             1 => w.add_authority_rr(hn, ty.into(), class.into(), Ttl::from(ttl), rdata, Some(&mut hpv)),
                                             _ => w.add_additional_rr(hn, ty.into(), class.into(), Ttl::from(ttl), rdata, Some(&mut hpv)) };
                        (res, 1, rd.clone())
                    };
                    if res.is_ok() {
                        last_owner = Some(owner.clone());
                        match kind {
                            1 | 2 | 3 | 5 | 7 => {
                                last_rd_name = Some(target.clone());
                                if !rset { if let Some(p) = hpv.get(0) { explicit.push((target.clone(), p)); } }
                            }
                            4 => { last_rd_name = Some(second.clone()); }
                            _ => {}
                        }
                    }
                    let mut rdatas = vec![rd.clone()]; if n_rd == 2 { rdatas.push(rd2); }
                    op = json!({"op": "rr", "sec": sec, "owner": owner.wire_repr().to_vec(), "hint": hint_s, "type": ty, "class": class, "ttl": ttl,
                                "rdatas": rdatas, "res": res.map(|_| "ok").unwrap_or_else(errname)});
                } else if k < 80 {
                    let nl = r.gen_range(0..buflen + 20); w.set_limit(nl); op = json!({"op": "limit", "v": nl, "res": "ok"});
                } else if k < 86 {
                    let m = r.gen_range(0..3); w.set_compression_mode([CompressionMode::Standard, CompressionMode::CasePreserving, CompressionMode::Disabled][m]);
                    op = json!({"op": "comp", "v": m, "res": "ok"});
                } else if k < 92 {
                    let sz: u16 = *[512u16, 1232, 65535].choose(&mut r).unwrap(); let res = w.set_edns(sz);
                    op = json!({"op": "edns", "v": sz, "res": res.map(|_| "ok").unwrap_or_else(errname)});
                } else {
                    w.clear_rrs(); last_owner = None; last_rd_name = None; explicit.clear(); op = json!({"op": "clear", "res": "ok"});
                }
                let st = w.verif_state();
                op["c0"] = json!(st0.0); op["a0"] = json!(st0.1); op["cursor"] = json!(st.0); op["avail"] = json!(st.1); op["limit"] = json!(st.2);
                ops.push(op);
            }
            w.finish()
        }));
        let rec = match res {
            Ok(n) => json!({"ev": "Seq", "buflen": buflen, "limit": limit, "ops": ops, "out": "ok", "msg": buf[..n].to_vec()}),
            Err(_) => json!({"ev": "Seq", "buflen": buflen, "limit": limit, "ops": ops, "out": "panic", "msg": []}),
        };
        out.emit(rec);
    }
    eprintln!("writer: {} records", out.finish());
}
