//! C18 (RDATA validate / read / write-read round trip) and C19 (equality, RdataSet de-duplication).
use std::panic::{catch_unwind, AssertUnwindSafe};

use quandary::class::Class;
use quandary::message::writer::{CompressionMode, Hint, HintedName};
use quandary::message::{Reader, Writer};
use quandary::rr::{Rdata, RdataSetOwned, Ttl, Type};
use rand::rngs::StdRng;
use rand::seq::SliceRandom;
use rand::{Rng, SeedableRng};
use serde_json::json;

use crate::common::*;

fn name(r: &mut StdRng) -> Vec<u8> {
    let pool: [&[u8]; 11] = [b"\x00", b"\x01a\x00", b"\x01A\x00", b"\x03www\x01a\x00", b"\x03WWW\x01a\x00", b"\x02ns\x03www\x01a\x00", b"\x01*\x01a\x00", b"\x03wWw\x01A\x00",
                             b"\x03w[w\x01a\x00", b"\x03w{W\x01a\x00", b"\x04_x@1\x01a\x00"];
    if r.gen_bool(0.06) {
        // a name of 254 / 255 (maximal) / 256 (too long) octets, letters in both cases
        let total = *[254usize, 255, 255, 256].choose(r).unwrap();
        let mut v = Vec::new();
        let mut left = total - 1;
        while left > 1 {
            let ll = (left - 1).min(*[63usize, 40, 9].choose(r).unwrap());
            v.push(ll as u8);
            for i in 0..ll { v.push(if i % 3 == 0 { b'K' } else { b'k' }); }
            left -= ll + 1;
        }
        v.push(0);
        return v;
    }
    pool.choose(r).unwrap().to_vec()
}

/// Offset at which the (first) embedded name of this RDATA shape starts, if it has one.
fn name_start(class: u16, ty: u16) -> Option<usize> {
    match (class, ty) {
        (_, 2) | (_, 3) | (_, 4) | (_, 5) | (_, 7) | (_, 8) | (_, 9) | (_, 12) | (3, 1) | (_, 6) | (_, 14) | (_, 250) => Some(0),
        (_, 15) => Some(2),
        (1, 33) => Some(6),
        _ => None,
    }
}

/// Replaces the tail "www.a." / "a." of the name starting at `start` by a pointer to offset 12 / 16 of the message
/// (wherever the name lies inside the RDATA: what follows it stays).
fn compress_name_at(rd: &[u8], start: usize) -> Option<Vec<u8>> {
    let mut i = start;
    loop {
        if i >= rd.len() { return None; }
        let rest = &rd[i..];
        for (tail, ptr) in [(&b"\x03www\x01a\x00"[..], 12u8), (&b"\x01a\x00"[..], 16u8)] {
            if rest.starts_with(tail) {
                let mut v = rd[..i].to_vec();
                v.extend_from_slice(&[0xc0, ptr]);
                v.extend_from_slice(&rest[tail.len()..]);
                return Some(v);
            }
        }
        let l = rd[i] as usize;
        if l == 0 || l > 63 { return None; }
        i += 1 + l;
    }
}

fn gen(r: &mut StdRng, class: u16, ty: u16) -> Vec<u8> {
    let mut v: Vec<u8> = match (class, ty) {
        (_, 2) | (_, 3) | (_, 4) | (_, 5) | (_, 7) | (_, 8) | (_, 9) | (_, 12) => name(r),
        (1, 1) => vec![1, 2, 3, 4],
        // type A outside class IN: in CH a name and a 16-bit address, in any other class opaque octets that may look like that
        (c, 1) if c != 1 => { let mut v = name(r); v.extend_from_slice(&[0, r.gen_range(0..2)]); v }
        (_, 6) => { let mut v = name(r); v.extend(name(r)); v.extend_from_slice(&[0; 19]); v.push(r.gen_range(0..2)); v }
        (1, 11) => { let mut v = vec![1, 2, 3, 4, 6]; for _ in 0..r.gen_range(0..3) { v.push(r.gen()); } v }
        (_, 13) => { let mut v = vec![2, b'a', b'b']; v.extend_from_slice(&[1, b'c']); if r.gen_bool(0.2) { v.extend_from_slice(&[0]); } v }
        (_, 14) => { let mut v = name(r); v.extend(name(r)); v }
        (_, 15) => { let mut v = vec![0, r.gen_range(0..2)]; v.extend(name(r)); v }
        (_, 16) => { let mut v = Vec::new(); for _ in 0..r.gen_range(1..3) { let l = r.gen_range(0..4u8); v.push(l); for _ in 0..l { v.push(b'x'); } } v }
        (1, 28) => vec![7; 16],
        (_, 33) => { let mut v = vec![0, 1, 0, 2, 0, r.gen_range(0..2)]; v.extend(name(r)); v }   // in classes other than IN: an unknown type that merely looks like SRV
        (_, 41) => {
            let mut v = Vec::new();
            for _ in 0..r.gen_range(0..3) { let l = r.gen_range(0..3u8); v.extend_from_slice(&[0, 10, 0, l]); for _ in 0..l { v.push(1); } }
            // an option whose OPTION-LENGTH is at the top of the 16-bit range (length + 4 does not fit 16 bits)
            if r.gen_bool(0.1) { v.extend_from_slice(&[0, 10, 0xff, *[0xfbu8, 0xfc, 0xfd, 0xff].choose(r).unwrap()]); for _ in 0..r.gen_range(0..4) { v.push(0); } }
            v
        }
        (_, 250) => {
            let mut v = name(r);
            v.extend_from_slice(&[0, 0, 0, 0, 0, 1, 1, 44]);
            let ml = r.gen_range(0..3u8);
            v.extend_from_slice(&[0, ml]);
            for _ in 0..ml { v.push(9); }
            v.extend_from_slice(&[0, 1, 0, 0]);
            let ol = r.gen_range(0..3u8);
            v.extend_from_slice(&[0, ol]);
            for _ in 0..ol { v.push(8); }
            v
        }
        _ => (0..r.gen_range(0..6)).map(|_| r.gen()).collect(),
    };
    // near-valid mutations
    match r.gen_range(0..10) {
        0 => { v.pop(); }
        1 => { v.push(r.gen_range(0..3)); }
        2 => { if !v.is_empty() { let i = r.gen_range(0..v.len()); v[i] = v[i].wrapping_add(1); } }
        3 => { let n = r.gen_range(0..=v.len()); v.truncate(n); }
        _ => {}
    }
    v
}

pub const COMBOS: [(u16, u16); 30] = [(1, 1), (3, 1), (1, 2), (1, 3), (1, 4), (1, 5), (1, 6), (1, 7), (1, 8), (1, 9), (1, 11), (1, 12), (1, 13), (1, 14), (1, 15), (1, 16),
    (1, 28), (1, 33), (3, 33), (1, 41), (1, 250), (1, 10), (1, 65280), (4, 2), (3, 28), (3, 6), (4, 33), (65280, 33), (4, 1), (254, 1)];

pub fn main(args: &[String]) {
    silence_panics();
    let seed: u64 = args[0].parse().unwrap();
    let n: usize = args[1].parse().unwrap();
    let mut out = Out::create(&args[2]);
    let mut r = StdRng::seed_from_u64(seed);
    for _ in 0..n {
        let (class, ty) = *COMBOS.choose(&mut r).unwrap();
        let a = gen(&mut r, class, ty);
        let b = if r.gen_bool(0.5) {
            let mut b = a.clone();
            for x in b.iter_mut() { if x.is_ascii_alphabetic() && r.gen_bool(0.5) { *x ^= 0x20; } }
            // now and then also bit 5 of an octet next to the letters in the code table ([ \ ] ^ _ ` { | } ~ @): not a case variant
            if r.gen_bool(0.15) { for x in b.iter_mut() { if (*x >= 0x40 && *x < 0x80) && !x.is_ascii_alphabetic() { *x ^= 0x20; break; } } }
            if r.gen_bool(0.2) { b.push(0); }
            b
        } else { gen(&mut r, class, ty) };
        let c = if r.gen_bool(0.5) { a.clone() } else if r.gen_bool(0.5) { let mut c = b.clone(); for x in c.iter_mut() { if x.is_ascii_alphabetic() && r.gen_bool(0.5) { *x ^= 0x20; } } c } else { gen(&mut r, class, ty) };
        let (ra, rb, rc): (&Rdata, &Rdata, &Rdata) = (a.as_slice().try_into().unwrap(), b.as_slice().try_into().unwrap(), c.as_slice().try_into().unwrap());
        let (cl, t) = (Class::from(class), Type::from(ty));
        let judged = catch_unwind(AssertUnwindSafe(|| {
            let valid = ra.validate(cl, t).is_ok();
            let eqs = [ra.equals(ra, cl, t), ra.equals(rb, cl, t), rb.equals(ra, cl, t), rb.equals(rc, cl, t), rc.equals(rb, cl, t), ra.equals(rc, cl, t), rc.equals(ra, cl, t)];
            let set = RdataSetOwned::from_iter(cl, t, [ra, rb, rc, ra]).unwrap();
            let kept: Vec<Vec<u8>> = set.iter().map(|d| d.octets().to_vec()).collect();
            (valid, eqs, kept)
        }));
        let valid = match judged {
            Ok((valid, eqs, kept)) => { out.emit(json!({"ev": "Rd", "class": class, "type": ty, "a": a, "b": b, "c": c, "valid": valid, "eqs": eqs, "kept": kept})); valid }
            // a panic of the code under test is data
            Err(_) => { out.emit(json!({"ev": "RdPanic", "class": class, "type": ty, "a": a, "b": b, "c": c})); false }
        };

        // read from a message: prefix with names that can be pointer targets, then the rdata, possibly with a compressed name
        let mut msg: Vec<u8> = vec![0; 12];
        msg.extend_from_slice(b"\x03www\x01a\x00"); // name at offset 12; "a." at offset 16
        let cursor = msg.len();
        let mut rd = a.clone();
        if r.gen_bool(0.4) {
            if rd.ends_with(b"\x03www\x01a\x00") { let l = rd.len(); rd.truncate(l - 7); rd.extend_from_slice(&[0xc0, 12]); }
            else if rd.ends_with(b"\x01a\x00") { let l = rd.len(); rd.truncate(l - 3); rd.extend_from_slice(&[0xc0, 16]); }
        } else if (ty == 6 || ty == 14) && r.gen_bool(0.3) {
            // SOA / MINFO whose second name is a pointer to the root label that ends the first one (the octet right
            // before it): a legal way to write "."
            let first = b"\x02ns\x03www\x01a\x00";
            let root_at = cursor + first.len() - 1;
            let mut v = first.to_vec();
            v.extend_from_slice(&[0xc0 | (root_at >> 8) as u8, (root_at & 0xff) as u8]);
            if ty == 6 { v.extend_from_slice(&[0; 19]); v.push(r.gen_range(0..2)); }
            rd = v;
        } else if r.gen_bool(0.4) {
            // a compressed name that is not at the end of the RDATA (CH A, SOA MNAME, MINFO, MX, SRV, ...)
            if let Some(st) = name_start(class, ty) { if let Some(v) = compress_name_at(&rd, st) { rd = v; } }
        }
        msg.extend_from_slice(&rd);
        let extra = r.gen_range(0..3);
        for _ in 0..extra { msg.push(0xee); }
        let (cur, rdlen): (usize, u16) = match r.gen_range(0..9) {
            0 => (msg.len(), 0),
            1 => (cursor, rd.len() as u16 + extra as u16 + 1),
            2 => (cursor + r.gen_range(0..3), rd.len() as u16),
            3 => (cursor, (rd.len() as u16).saturating_sub(1)),
            4 => (msg.len() - extra, 0),
            _ => (cursor, rd.len() as u16),
        };
        let m2 = msg.clone();
        let res = catch_unwind(move || Rdata::read(Class::from(class), Type::from(ty), &m2, cur, rdlen).map(|c| c.octets().to_vec()));
        let jr = match res { Ok(Ok(v)) => json!({"out": "ok", "rdata": v}), Ok(Err(_)) => json!({"out": "err"}), Err(_) => json!({"out": "panic"}) };
        out.emit(json!({"ev": "Read", "class": class, "type": ty, "msg": msg, "cursor": cur, "rdlen": rdlen, "res": jr}));

        // write the RDATA into a message (each compression mode) and read it back
        if valid {
            let mode = r.gen_range(0..3usize);
            let fail_between = r.gen_bool(0.5);
            let a2 = a.clone();
            let res = catch_unwind(AssertUnwindSafe(|| {
                let mut buf = vec![0xFFu8; 2048];
                let mut w = Writer::new(&mut buf[..], 2048).unwrap();
                w.set_compression_mode([CompressionMode::Standard, CompressionMode::CasePreserving, CompressionMode::Disabled][mode]);
                // a first record whose owner / RDATA names can serve as compression targets
                let o1 = nm("ns.www.a.");
                w.add_answer_rr(HintedName::new(Hint::None, &o1), Type::from(2), Class::IN, Ttl::from(1), b"\x03WWW\x01a\x00".as_slice().try_into().unwrap(), None).unwrap();
                // half of the time an add that fails in between (an NS RRset whose second record does not fit the limit
                // set for it): it is rolled back, and nothing of it may influence how the next record is written
                if fail_between {
                    let st = w.verif_state();
                    w.set_limit(st.0 + 30);
                    let set = RdataSetOwned::from_iter(Class::IN, Type::from(2), [<&Rdata>::try_from(&b"\x01x\x03www\x01a\x00"[..]).unwrap(), <&Rdata>::try_from(&b"\x01y\x03www\x01a\x00"[..]).unwrap()]).unwrap();
                    let o3 = nm("x.www.a.");
                    let _ = w.add_answer_rrset(HintedName::new(Hint::None, &o3), Type::from(2), Class::IN, Ttl::from(3), &set, None);
                    w.set_limit(2048);
                }
                let o2 = nm("www.a.");
                let rda: &Rdata = a2.as_slice().try_into().unwrap();
                let wres = w.add_answer_rr(HintedName::new(Hint::None, &o2), Type::from(ty), Class::from(class), Ttl::from(2), rda, None);
                if wres.is_err() { return json!({"out": "werr"}); }
                let n = w.finish();
                let mut rdr = Reader::try_from(&buf[..n]).unwrap();
                rdr.read_rr().unwrap();
                match rdr.read_rr() {
                    Ok(rr) => json!({"out": "ok", "rdata": rr.rdata.octets().to_vec(), "msg": buf[..n].to_vec()}),
                    Err(_) => json!({"out": "rerr", "msg": buf[..n].to_vec()}),
                }
            }));
            let j = match res { Ok(j) => j, Err(_) => json!({"out": "panic"}) };
            out.emit(json!({"ev": "Rt", "class": class, "type": ty, "a": a, "mode": mode, "res": j}));
        }
    }
    eprintln!("rdata: {} records", out.finish());
}
