//! C15: random sequences of Reader calls on valid messages (hand-built, and real
//! responses of the server) and their mutations.
use std::net::{IpAddr, Ipv4Addr};
use std::panic::{catch_unwind, AssertUnwindSafe};
use std::sync::Arc;

use quandary::message::Reader;
use quandary::server::{Server, Transport};
use rand::rngs::StdRng;
use rand::seq::SliceRandom;
use rand::{Rng, SeedableRng};
use serde_json::{json, Value};

use crate::common::*;
use crate::gen::*;

fn mk(r: &mut StdRng) -> Vec<u8> {
    let mut m = vec![r.gen::<u8>(), r.gen(), r.gen(), r.gen(), 0, r.gen_range(0..3), 0, 0, 0, 0, 0, 0];
    for _ in 0..m[5] {
        m.extend_from_slice(b"\x03www\x07example\x04test\x00");
        m.extend_from_slice(&[0, 1, 0, 1]);
    }
    let n = r.gen_range(0..5u8);
    m[7] = n;
    for _ in 0..n {
        if r.gen_bool(0.6) && m[5] > 0 { m.extend_from_slice(&[0xc0, 12]); } else { m.extend_from_slice(b"\x01x\x00"); }
        // a name for use inside RDATA: compressed against the QNAME when there is one
        let rd_name = |r: &mut StdRng, qd: u8| -> Vec<u8> {
            if qd > 0 && r.gen_bool(0.7) { let mut v = vec![1, b'a' + r.gen_range(0..3u8)]; v.extend_from_slice(&[0xc0, if r.gen_bool(0.5) { 12 } else { 16 }]); v }
            else { vec![2, b'n', b's', 1, b'q', 0] }
        };
        let push_rr = |m: &mut Vec<u8>, ty: u16, class: u16, rd: &[u8]| {
            m.extend_from_slice(&ty.to_be_bytes());
            m.extend_from_slice(&class.to_be_bytes());
            m.extend_from_slice(&[0, 0, 0, 60]);
            m.extend_from_slice(&(rd.len() as u16).to_be_bytes());
            m.extend_from_slice(rd);
        };
        let qd = m[5];
        match r.gen_range(0..10) {
            6 => {
                // every single-name type of RFC 1035 with a (usually compressed) name
                let ty = *[2u16, 3, 4, 5, 7, 8, 9, 12].choose(r).unwrap();
                let rd = rd_name(r, qd);
                push_rr(&mut m, ty, 1, &rd);
            }
            7 => {
                let mut rd = rd_name(r, qd);
                rd.extend(rd_name(r, qd));
                for v in [1u32, 2, 3, 4, 5] { rd.extend_from_slice(&v.to_be_bytes()); }
                push_rr(&mut m, 6, 1, &rd);
            }
            8 => {
                let mut rd = rd_name(r, qd);
                rd.extend(rd_name(r, qd));
                push_rr(&mut m, 14, 1, &rd);
            }
            9 => {
                let mut rd = vec![0, 7];
                rd.extend(rd_name(r, qd));
                push_rr(&mut m, 15, *[1u16, 3].choose(r).unwrap(), &rd);
            }
            0 => m.extend_from_slice(&[0, 1, 0, 1, 0, 0, 0, 60, 0, 4, 1, 2, 3, 4]),
            1 => {
                m.extend_from_slice(&[0, 2, 0, 1, 0, 0, 0, 60]);
                if m[5] > 0 { m.extend_from_slice(&[0, 5, 2, b'n', b's', 0xc0, 16]); } else { m.extend_from_slice(&[0, 4, 2, b'n', b's', 0]); }
            }
            2 => { m.extend_from_slice(&[0, 15, 0, 1, 0x80, 0, 0, 1]); m.extend_from_slice(&[0, 5, 0, 10, 1, b'm', 0]); }
            3 => { m.extend_from_slice(&[0, 2, 0, 1, 0, 0, 0, 60, 0, 0]); } // NS with RDLENGTH 0 (embedded name at the end of the RDATA)
            4 => { m.extend_from_slice(&[0, 33, 0, 1, 0, 0, 0, 9, 0, 9, 0, 1, 0, 2, 0, 3, 1, b's', 0]); }
            _ if r.gen_bool(0.6) => {
                // OPT with options (lengths up to the top of the 16-bit range) / TSIG with algorithm names of 253..257 octets
                if r.gen_bool(0.5) {
                    let mut rd = Vec::new();
                    for _ in 0..r.gen_range(0..3) {
                        let l: u16 = *[0u16, 1, 3, 0xfffb, 0xfffc, 0xfffd, 0xffff].choose(r).unwrap();
                        rd.extend_from_slice(&[0, 10]);
                        rd.extend_from_slice(&l.to_be_bytes());
                        for _ in 0..(l.min(4)) { rd.push(1); }
                    }
                    // owner = root: replace the owner written above by rebuilding the record tail
                    push_rr(&mut m, 41, 1232, &rd);
                } else {
                    let total = *[253usize, 254, 255, 255, 256, 257].choose(r).unwrap();
                    let mut alg = Vec::new();
                    let mut left = total - 1;
                    while left > 1 { let ll = (left - 1).min(63); alg.push(ll as u8); for _ in 0..ll { alg.push(b'g'); } left -= ll + 1; }
                    alg.push(0);
                    let mut rd = alg;
                    rd.extend_from_slice(&[0, 0, 0, 0, 0, 9, 1, 44, 0, 2, 7, 7, 0, 1, 0, 0, 0, 0]);
                    push_rr(&mut m, 250, 255, &rd);
                }
            }
            _ if r.gen_bool(0.5) => {
                // class CH type A (a name, usually compressed, and a 16-bit address), SRV in and outside class IN
                let mut rd = rd_name(r, qd);
                rd.extend_from_slice(&[1, r.gen()]);
                if r.gen_bool(0.5) { push_rr(&mut m, 1, 3, &rd); } else {
                    let mut srv = vec![0, 1, 0, 2, 0, 53];
                    srv.extend(rd_name(r, qd));
                    push_rr(&mut m, 33, *[1u16, 3, 4].choose(r).unwrap(), &srv);
                }
            }
            _ => { m.extend_from_slice(&[0xff, 0, 0, 1, 0, 0, 0, 0, 0, 3, 9, 9, 9]); }
        }
    }
    m
}

fn mutate(r: &mut StdRng, m: &mut Vec<u8>) {
    match r.gen_range(0..8) {
        0 => { let k = r.gen_range(12..=m.len()); m.truncate(k); }
        1 => { let k = r.gen_range(4..12); m[k] = m[k].wrapping_add(1); }
        2 => { if m.len() > 13 { let k = r.gen_range(12..m.len()); m[k] = r.gen(); } }
        3 => { if m.len() > 13 { let k = r.gen_range(12..m.len()); m[k] = *[0xc0u8, 0xff, 63, 64, 0].choose(r).unwrap(); } }
        4 => { let k = r.gen_range(1..12); let l = m.len(); m.truncate(l.saturating_sub(k).max(12)); }
        _ => {}
    }
}

fn drive(r: &mut StdRng, out: &mut Out, msg: Vec<u8>) {
    let plan: Vec<u8> = (0..r.gen_range(1..14)).map(|_| r.gen_range(0..10u8)).collect();
    drive_plan(out, msg, plan);
}

/// plan: 0 read_question, 1 skip_question, 2 read_rr, 3 skip_rr, 4 peek+skip, 5 peek+parse, 6 peek+drop, 7 mark, 8 rewind, 9 peek+owner
fn drive_plan(out: &mut Out, msg: Vec<u8>, plan: Vec<u8>) {
    let mut ops: Vec<Value> = Vec::new();
    let m2 = msg.clone();
    let res = catch_unwind(AssertUnwindSafe(|| {
        let mut rd = Reader::try_from(&m2[..]).unwrap();
        let mut marked = false;
        ops.push(json!({"op": "hdr", "id": rd.id(), "qr": rd.qr(), "opcode": u8::from(rd.opcode()), "aa": rd.aa(), "tc": rd.tc(), "rd": rd.rd(), "ra": rd.ra(), "rcode": u8::from(rd.rcode()),
                        "qd": rd.qdcount(), "an": rd.ancount(), "ns": rd.nscount(), "ar": rd.arcount(), "cursor": rd.message_to_cursor().len(), "eom": rd.at_eom()}));
        for p in &plan {
            ops.push(json!({"op": "pending", "p": p}));
            let o = match p {
                0 => match rd.read_question() { Ok(q) => json!({"op": "read_q", "res": "ok", "name": q.qname.wire_repr().to_vec(), "qtype": u16::from(q.qtype), "qclass": u16::from(q.qclass)}), Err(_) => json!({"op": "read_q", "res": "err"}) },
                1 => json!({"op": "skip_q", "res": if rd.skip_question().is_ok() { "ok" } else { "err" }}),
                2 => match rd.read_rr() { Ok(rr) => json!({"op": "read_rr", "res": "ok", "owner": rr.owner.wire_repr().to_vec(), "type": u16::from(rr.rr_type), "class": u16::from(rr.class), "ttl": u32::from(rr.ttl), "rdata": rr.rdata.octets().to_vec()}), Err(_) => json!({"op": "read_rr", "res": "err"}) },
                3 => json!({"op": "skip_rr", "res": if rd.skip_rr().is_ok() { "ok" } else { "err" }}),
                4 => match rd.peek_rr() { Ok(p) => { let j = json!({"op": "peek_skip", "res": "ok", "type": u16::from(p.rr_type()), "class": u16::from(p.class()), "ttl": u32::from(p.ttl()), "rdlen": p.rdlength()}); p.skip(); j } Err(_) => json!({"op": "peek_skip", "res": "err"}) },
                5 => match rd.peek_rr() { Ok(p) => match p.parse() { Ok(rr) => json!({"op": "peek_parse", "res": "ok", "owner": rr.owner.wire_repr().to_vec(), "type": u16::from(rr.rr_type), "class": u16::from(rr.class), "ttl": u32::from(rr.ttl), "rdata": rr.rdata.octets().to_vec()}), Err(_) => json!({"op": "peek_parse", "res": "parse_err"}) }, Err(_) => json!({"op": "peek_parse", "res": "err"}) },
                6 => { let res = rd.peek_rr().is_ok(); json!({"op": "peek_drop", "res": if res { "ok" } else { "err" }}) }
                7 => { rd.mark(); marked = true; json!({"op": "mark", "res": "ok"}) }
                8 => { if marked { rd.rewind(); marked = false; json!({"op": "rewind", "res": "ok"}) } else { json!({"op": "noop", "res": "ok"}) } }
                _ => match rd.peek_rr() {
                    Ok(mut p) => { let upto = p.message_to_rr().len(); match p.owner() { Ok(o) => json!({"op": "peek_owner", "res": "ok", "owner": o.wire_repr().to_vec(), "upto": upto}), Err(_) => json!({"op": "peek_owner", "res": "owner_err"}) } }
                    Err(_) => json!({"op": "peek_owner", "res": "err"}),
                },
            };
            ops.pop();
            let mut o = o;
            o["cursor"] = json!(rd.message_to_cursor().len());
            o["eom"] = json!(rd.at_eom());
            ops.push(o);
        }
    }));
    if res.is_err() {
        if let Some(last) = ops.last_mut() {
            last["op"] = json!(format!("panic{}", last["p"]));
            last["res"] = json!("panic");
            last["cursor"] = json!(0);
            last["eom"] = json!(false);
        }
    }
    out.emit(json!({"ev": "Rd", "msg": msg, "ops": ops}));
}

pub fn main(args: &[String]) {
    silence_panics();
    let seed: u64 = args[0].parse().unwrap();
    let n: usize = args[1].parse().unwrap();
    let mut out = Out::create(&args[2]);
    let mut r = StdRng::seed_from_u64(seed);
    // (a) hand-built messages and mutations
    for _ in 0..n {
        let mut msg = mk(&mut r);
        mutate(&mut r, &mut msg);
        drive(&mut r, &mut out, msg);
    }
    // (a') messages of 8..16 KiB: a name written in full beyond offset 4096 / 8192 / 12288 and later owner and RDATA names
    // that point at it (a pointer's offset uses all fourteen bits)
    for target in [4095usize, 4096, 8191, 8192, 8193, 12288, 16000] {
        if n < 50 && target % 4096 != 0 { continue; }
        let mut m = vec![r.gen::<u8>(), r.gen(), 0x84, 0, 0, 1, 0, 3, 0, 0, 0, 0];
        m.extend_from_slice(b"\x03www\x07example\x04test\x00");
        m.extend_from_slice(&[0, 1, 0, 1]);
        // filler: one record of an unknown type whose RDATA brings the next owner to `target`
        let fixed = m.len() + 1 + 10;
        let rdlen = target - fixed;
        m.push(0);
        m.extend_from_slice(&[0xff, 0x00, 0, 1, 0, 0, 0, 60]);
        m.extend_from_slice(&(rdlen as u16).to_be_bytes());
        m.extend((0..rdlen).map(|i| (i % 253) as u8));
        assert_eq!(m.len(), target);
        m.extend_from_slice(b"\x03far\x03off\x00");
        m.extend_from_slice(&[0, 1, 0, 1, 0, 0, 0, 60, 0, 4, 10, 0, 0, 1]);
        // NS record: owner = pointer to "far.off.", RDATA = "ns" + pointer to "off."
        m.extend_from_slice(&[0xc0 | (target >> 8) as u8, (target & 0xff) as u8]);
        m.extend_from_slice(&[0, 2, 0, 1, 0, 0, 0, 60, 0, 5, 2, b'n', b's']);
        m.extend_from_slice(&[0xc0 | ((target + 4) >> 8) as u8, ((target + 4) & 0xff) as u8]);
        // the question, the filler skipped, then the two records read / peeked in the three ways the Reader offers
        drive_plan(&mut out, m.clone(), vec![0, 3, 2, 2]);
        drive_plan(&mut out, m.clone(), vec![0, 3, 3, 5]);
        drive_plan(&mut out, m.clone(), vec![0, 4, 3, 9, 2]);
        drive(&mut r, &mut out, m);
    }
    // (b) real server responses (written by the real Writer, with compression) and mutations
    let src = IpAddr::V4(Ipv4Addr::LOCALHOST);
    for _ in 0..(n / 200 + 1) {
        let g = gen_catalog(&mut r, ZoneOpts { big: false, weird: false, chains: true }, false);
        let server = Server::new(Arc::new(g.cat));
        for _ in 0..100 {
            let qn = g.names.choose(&mut r).unwrap();
            let q = Query { id: r.gen(), flags: 0, qname: w(qn), qtype: *[1u16, 2, 15, 6, 255, 33, 5].choose(&mut r).unwrap(), qclass: 1 };
            let rec = handle(&server, &q.encode(), Transport::Tcp, src);
            if rec["out"] != "resp" { continue; }
            let resp: Vec<u8> = rec["resp"].as_array().unwrap().iter().map(|x| x.as_u64().unwrap() as u8).collect();
            drive(&mut r, &mut out, resp.clone());
            let mut m = resp;
            mutate(&mut r, &mut m);
            drive(&mut r, &mut out, m);
        }
    }
    eprintln!("reader: {} records", out.finish());
}
