//! Zone-file drivers (C23, C24, C25).
//!
//!   qv zonefile render <seed> <n> <out>   random record lists rendered with random presentation choices,
//!                                         parsed by the real zone_file::Parser; logged: abstract lines + parse
//!   qv zonefile fuzz   <seed> <n> <out>   random octets / token soups / mutations of rendered files
//!   qv zonefile fs     <seed> <n> <out> <scratch-dir>
//!                                         random $INCLUDE trees written to the file system, parsed by fs::Parser
//!
//! The renderer is an independent pretty-printer (the inverse of the parser); the expected meaning
//! is computed by TLC from the abstract lines (ZoneFile.tla), not here.

use std::io::Cursor;
use std::net::Ipv6Addr;
use std::panic::{catch_unwind, AssertUnwindSafe};
use std::path::{Path, PathBuf};

use quandary::zone_file::{LineContent, Parser};
use rand::rngs::StdRng;
use rand::seq::SliceRandom;
use rand::{Rng, SeedableRng};
use serde_json::{json, Value};

use crate::common::*;

pub fn main(args: &[String]) {
    silence_panics();
    if args[0] == "replay" {
        let mut out = Out::create(&args[2]);
        replay_trees(&args[1], &mut out, Path::new(&args[3]));
        eprintln!("{} records", out.finish());
        return;
    }
    let seed: u64 = args[1].parse().unwrap();
    let n: usize = args[2].parse().unwrap();
    let mut out = Out::create(&args[3]);
    let mut r = StdRng::seed_from_u64(seed);
    match args[0].as_str() {
        "render" => {
            for i in 0..n {
                if i % 100 == 75 {
                    // a TXT record whose RDATA has exactly the largest size an RDLENGTH can announce (and one octet less)
                    for total in [65534usize, 65535] {
                        let mut rd: Vec<u8> = Vec::new();
                        let mut text = b"big.t. 5 IN TXT".to_vec();
                        while rd.len() < total {
                            let l = (total - rd.len() - 1).min(255);
                            rd.push(l as u8);
                            text.push(b' ');
                            if r.gen_bool(0.5) { text.push(b'"'); }
                            let quoted = *text.last().unwrap() == b'"';
                            for k in 0..l { let c = b'a' + (k % 26) as u8; rd.push(c); text.push(c); }
                            if quoted { text.push(b'"'); }
                        }
                        text.push(b'\n');
                        let items = json!([{"k": "rec", "owner": {"form": "abs", "labels": [], "name": w("big.t.")}, "httl": true, "ttl": 5, "hclass": true, "class": 1,
                                            "type": 16, "rdata": rd, "nl": 1}]);
                        let parsed = parse_mem(&text);
                        out.emit(json!({"ev": "File", "items": items, "parsed": parsed, "text": ""}));
                    }
                }
                // one file in a hundred is large (40-90 KB)
                let f = render_file(&mut r, &[], if i % 100 == 50 { 1 } else { 0 }, true);
                let parsed = parse_mem(&f.text);
                out.emit(json!({"ev": "File", "items": f.items, "parsed": parsed, "text": String::from_utf8_lossy(&f.text)}));
            }
        }
        "fuzz" => fuzz(&mut r, n, &mut out),
        "fs" => fs_trees(&mut r, n, &mut out, Path::new(&args[4])),
        _ => panic!("unknown zonefile mode"),
    }
    eprintln!("{} records", out.finish());
}

// ---------------------------------------------------------------- the renderer

type Labels = Vec<Vec<u8>>;

fn rand_label(r: &mut StdRng) -> Vec<u8> {
    let special = [b'.', b'\\', b' ', b';', b'(', b')', b'"', b'@', b'$', 0u8, 200, b'\t', b'*', b'\n', b'\r', 127, 255];
    let n = r.gen_range(1..6);
    (0..n).map(|_| if r.gen_bool(0.15) { *special.choose(r).unwrap() } else { *b"abcxyzABC019-_".choose(r).unwrap() }).collect()
}

fn wire(labels: &[Vec<u8>]) -> Vec<u8> {
    wire_of_labels(labels)
}

fn escape_octet(r: &mut StdRng, c: u8, out: &mut Vec<u8>) {
    if (0x21..0x7f).contains(&c) && !c.is_ascii_digit() && r.gen_bool(0.5) {
        out.push(b'\\');
        out.push(c);
    } else {
        out.extend_from_slice(format!("\\{:03}", c).as_bytes());
    }
}

/// Text of one label inside a name field.
fn label_text(r: &mut StdRng, l: &[u8], first_of_field: bool) -> Vec<u8> {
    let mut out = Vec::new();
    for (i, &c) in l.iter().enumerate() {
        let must = matches!(c, b'.' | b'\\' | b' ' | b'\t' | b';' | b'(' | b')' | b'"' | b'\n' | b'\r')
            || !(0x21..0x7f).contains(&c)
            || (first_of_field && i == 0 && (c == b'$' || c == b'@'));
        if must || r.gen_bool(0.05) {
            escape_octet(r, c, &mut out);
        } else {
            out.push(c);
        }
    }
    out
}

/// Text of a name plus its abstract form (absolute / relative to the origin / "@").
fn name_text(r: &mut StdRng, labels: &[Vec<u8>], origin: &Option<Labels>, allow_rel: bool) -> (Vec<u8>, Value) {
    let abs_form = |l: &[Vec<u8>]| json!({"form": "abs", "labels": [], "name": wire(l)});
    if labels.is_empty() {
        return (b".".to_vec(), abs_form(labels));
    }
    if let Some(o) = origin {
        if allow_rel && labels.len() >= o.len() && labels[labels.len() - o.len()..] == o[..] && r.gen_bool(0.6) {
            let rel = &labels[..labels.len() - o.len()];
            if rel.is_empty() {
                return (b"@".to_vec(), json!({"form": "at", "labels": [], "name": [0]}));
            }
            let mut t = Vec::new();
            for (i, l) in rel.iter().enumerate() {
                if i > 0 { t.push(b'.'); }
                t.extend(label_text(r, l, i == 0));
            }
            return (t, json!({"form": "rel", "labels": rel.to_vec(), "name": [0]}));
        }
    }
    let mut t = Vec::new();
    for (i, l) in labels.iter().enumerate() {
        t.extend(label_text(r, l, i == 0));
        t.push(b'.');
    }
    (t, abs_form(labels))
}

fn sep(r: &mut StdRng) -> Vec<u8> {
    if r.gen_bool(0.8) { b" ".to_vec() } else { vec![b'\t'; r.gen_range(1..3)] }
}

fn rcase(r: &mut StdRng, s: &str) -> String {
    match r.gen_range(0..3) {
        0 => s.to_string(),
        1 => s.to_ascii_lowercase(),
        _ => s.chars().map(|c| if r.gen_bool(0.5) { c.to_ascii_lowercase() } else { c.to_ascii_uppercase() }).collect(),
    }
}

fn char_string(r: &mut StdRng, s: &[u8]) -> Vec<u8> {
    let quoted = s.is_empty() || r.gen_bool(0.6);
    let mut t = Vec::new();
    if quoted { t.push(b'"'); }
    for (i, &c) in s.iter().enumerate() {
        let must = c == b'"' || c == b'\\' || !(0x20..0x7f).contains(&c)
            || (!quoted && matches!(c, b' ' | b'\t' | b';' | b'(' | b')'))
            || (!quoted && i == 0 && c == b'"');
        if must {
            if r.gen_bool(0.5) && (0x20..0x7f).contains(&c) && !c.is_ascii_digit() {
                t.push(b'\\');
                t.push(c);
            } else {
                t.extend_from_slice(format!("\\{:03}", c).as_bytes());
            }
        } else {
            t.push(c);
        }
    }
    if quoted { t.push(b'"'); }
    t
}

fn rand_string(r: &mut StdRng, max: usize) -> Vec<u8> {
    (0..r.gen_range(0..max)).map(|_| *b"ab \";()x\t\x00\xfe\\019".choose(r).unwrap()).collect()
}

pub struct Rendered {
    pub text: Vec<u8>,
    pub items: Vec<Value>,
}

struct RdataText {
    ty: u16,
    ty_txt: String,
    rdata: Vec<u8>,
    fields: Vec<Vec<u8>>,
}

fn gen_rdata(r: &mut StdRng, eff_class: u16, pool: &[Labels], origin: &Option<Labels>) -> RdataText {
    let target: Labels = pool.choose(r).unwrap().clone();
    let choice = if eff_class == 1 { r.gen_range(0..15) } else if eff_class == 3 { *[1usize, 2, 4, 7, 9, 10, 11, 14].choose(r).unwrap() } else { *[1usize, 2, 4, 7, 10, 11].choose(r).unwrap() };
    let generic = |r: &mut StdRng, ty: u16, name: &str, rd: Vec<u8>| -> RdataText {
        // RFC 3597 generic form: \# <len> <hex in one word>
        let hex: String = rd.iter().map(|b| if r.gen_bool(0.5) { format!("{:02x}", b) } else { format!("{:02X}", b) }).collect();
        let mut fs = vec![b"\\#".to_vec(), rd.len().to_string().into_bytes()];
        if !rd.is_empty() { fs.push(hex.into_bytes()); }
        RdataText { ty, ty_txt: name.to_string(), rdata: rd, fields: fs }
    };
    match choice {
        0 => {
            let a = [r.gen::<u8>(), r.gen(), r.gen(), r.gen()];
            RdataText { ty: 1, ty_txt: rcase(r, "A"), rdata: a.to_vec(), fields: vec![format!("{}.{}.{}.{}", a[0], a[1], a[2], a[3]).into_bytes()] }
        }
        1 => {
            let (ty, nmn) = *[(2u16, "NS"), (5, "CNAME"), (12, "PTR"), (7, "MB"), (8, "MG"), (9, "MR"), (3, "MD"), (4, "MF")].choose(r).unwrap();
            let (t, _) = name_text(r, &target, origin, true);
            RdataText { ty, ty_txt: rcase(r, nmn), rdata: wire(&target), fields: vec![t] }
        }
        2 => {
            let (t, _) = name_text(r, &target, origin, true);
            RdataText { ty: 5, ty_txt: rcase(r, "CNAME"), rdata: wire(&target), fields: vec![t] }
        }
        3 => {
            let p: u16 = r.gen();
            let (t, _) = name_text(r, &target, origin, true);
            let mut rd = p.to_be_bytes().to_vec();
            rd.extend(wire(&target));
            RdataText { ty: 15, ty_txt: rcase(r, "MX"), rdata: rd, fields: vec![p.to_string().into_bytes(), t] }
        }
        4 => {
            let n = r.gen_range(1..4);
            let mut rd = Vec::new();
            let mut fs = Vec::new();
            for _ in 0..n {
                let s = rand_string(r, 12);
                rd.push(s.len() as u8);
                rd.extend(&s);
                fs.push(char_string(r, &s));
            }
            RdataText { ty: 16, ty_txt: rcase(r, "TXT"), rdata: rd, fields: fs }
        }
        5 => {
            let a: [u8; 16] = if r.gen_bool(0.3) { let mut x = [0u8; 16]; x[15] = r.gen(); x[0] = r.gen(); x } else { r.gen() };
            RdataText { ty: 28, ty_txt: rcase(r, "AAAA"), rdata: a.to_vec(), fields: vec![Ipv6Addr::from(a).to_string().into_bytes()] }
        }
        6 => {
            let (m, _) = name_text(r, &target, origin, true);
            let rn = pool.choose(r).unwrap().clone();
            let (rt, _) = name_text(r, &rn, origin, true);
            let nums: Vec<u32> = (0..5).map(|_| if r.gen_bool(0.3) { *[0u32, 1, u32::MAX, 0x8000_0000].choose(r).unwrap() } else { r.gen() }).collect();
            let mut rd = wire(&target);
            rd.extend(wire(&rn));
            for n in &nums { rd.extend(n.to_be_bytes()); }
            let mut fs = vec![m, rt];
            for n in &nums { fs.push(n.to_string().into_bytes()); }
            RdataText { ty: 6, ty_txt: rcase(r, "SOA"), rdata: rd, fields: fs }
        }
        7 => {
            let rd: Vec<u8> = (0..r.gen_range(0..10)).map(|_| r.gen()).collect();
            let ty = *[65280u16, 99, 65535, 256].choose(r).unwrap();
            let nmn = if r.gen_bool(0.5) { format!("TYPE{}", ty) } else { format!("type{}", ty) };
            generic(r, ty, &nmn, rd)
        }
        8 => {
            // a known type in generic form (validated by the parser)
            let a = [r.gen::<u8>(), r.gen(), r.gen(), r.gen()];
            let nmn = if r.gen_bool(0.5) { "TYPE1".to_string() } else { rcase(r, "A") };
            generic(r, 1, &nmn, a.to_vec())
        }
        9 => {
            // SRV (IN) or CH A
            if eff_class == 3 {
                let addr: u16 = r.gen();
                let (t, _) = name_text(r, &target, origin, true);
                let mut rd = wire(&target);
                rd.extend(addr.to_be_bytes());
                RdataText { ty: 1, ty_txt: rcase(r, "A"), rdata: rd, fields: vec![t, format!("{:o}", addr).into_bytes()] }
            } else {
                let v: [u16; 3] = [r.gen(), r.gen(), r.gen()];
                let (t, _) = name_text(r, &target, origin, true);
                let mut rd = Vec::new();
                for x in v { rd.extend(x.to_be_bytes()); }
                rd.extend(wire(&target));
                RdataText { ty: 33, ty_txt: rcase(r, "SRV"), rdata: rd, fields: vec![v[0].to_string().into_bytes(), v[1].to_string().into_bytes(), v[2].to_string().into_bytes(), t] }
            }
        }
        10 => {
            let cpu = rand_string(r, 8);
            let os = rand_string(r, 8);
            let mut rd = vec![cpu.len() as u8];
            rd.extend(&cpu);
            rd.push(os.len() as u8);
            rd.extend(&os);
            let f = vec![char_string(r, &cpu), char_string(r, &os)];
            RdataText { ty: 13, ty_txt: rcase(r, "HINFO"), rdata: rd, fields: f }
        }
        11 => {
            let other = pool.choose(r).unwrap().clone();
            let (a, _) = name_text(r, &target, origin, true);
            let (b, _) = name_text(r, &other, origin, true);
            let mut rd = wire(&target);
            rd.extend(wire(&other));
            RdataText { ty: 14, ty_txt: rcase(r, "MINFO"), rdata: rd, fields: vec![a, b] }
        }
        12 => {
            // WKS (IN): address, protocol, ports -> bitmap
            let a = [r.gen::<u8>(), r.gen(), r.gen(), r.gen()];
            let (proto, ptxt): (u8, String) = match r.gen_range(0..3) { 0 => (6, rcase(r, "TCP")), 1 => (17, rcase(r, "UDP")), _ => { let p: u8 = r.gen(); (p, p.to_string()) } };
            let mut ports: Vec<u16> = (0..r.gen_range(0..5)).map(|_| r.gen_range(0..200)).collect();
            // (a port may be listed twice: it is one bit all the same)
            if !ports.is_empty() && r.gen_bool(0.25) { let p = *ports.choose(r).unwrap(); ports.push(p); }
            let mut rd = a.to_vec();
            rd.push(proto);
            let maxp = ports.iter().max().cloned();
            if let Some(m) = maxp {
                let mut bm = vec![0u8; (m as usize) / 8 + 1];
                for p in &ports { bm[(*p as usize) / 8] |= 0x80 >> (p % 8); }
                rd.extend(bm);
            }
            let mut fs = vec![format!("{}.{}.{}.{}", a[0], a[1], a[2], a[3]).into_bytes(), ptxt.into_bytes()];
            for p in &ports { fs.push(p.to_string().into_bytes()); }
            RdataText { ty: 11, ty_txt: rcase(r, "WKS"), rdata: rd, fields: fs }
        }
        13 => {
            // a name type in generic form
            let rd = wire(&target);
            let nmn = rcase(r, "NS");
            generic(r, 2, &nmn, rd)
        }
        _ => {
            // TXT in generic form
            let s = rand_string(r, 6);
            let mut rd = vec![s.len() as u8];
            rd.extend(&s);
            let nmn = rcase(r, "TXT");
            generic(r, 16, &nmn, rd)
        }
    }
}

/// Renders one file. `includes`: (index, path text relative to this file) of files this one may include.
/// `first`: the top file (starts with an empty context).
pub fn render_file(r: &mut StdRng, includes: &[(usize, String)], depth_hint: usize, first: bool) -> Rendered {
    // (big files: CRLF half of the time - their line ends are aligned with the parser's read buffer below)
    let crlf = if depth_hint == 1 { r.gen_bool(0.5) } else { r.gen_bool(0.2) };
    let eol: &[u8] = if crlf { b"\r\n" } else { b"\n" };
    let mut text: Vec<u8> = Vec::new();
    let mut items: Vec<Value> = Vec::new();
    let mut origin: Option<Labels> = None;
    // what the context certainly provides at this point (an included file inherits unknown context: be explicit there)
    let (mut has_prev, mut has_ttl_src, mut has_class) = (false, false, false);
    let mut prev_class: u16 = 1;
    let pool: Vec<Labels> = (0..6).map(|_| (0..r.gen_range(1..4)).map(|_| rand_label(r)).collect()).collect();
    // depth_hint > 0 asks for a file well beyond the parser's 16 KiB read buffer (fields straddling refill points)
    let nitems = if depth_hint == 1 { r.gen_range(600..1300) } else if first { r.gen_range(3..25) } else { r.gen_range(1..8) };
    let mut pending_includes: Vec<(usize, String)> = includes.to_vec();
    // deliberately broken file: the first record omits something that cannot be inherited
    let broken = (first && includes.is_empty() && r.gen_bool(0.04)) || (!first && r.gen_bool(0.06));
    // a relative owner or '@' although no origin is in force: the parse must fail there (an included file inherits an
    // origin only from the directive or its includer, and an includer without origin must not keep the include's)
    let mut rel_without_origin = r.gen_bool(0.06);
    // depth_hint == 2: a top file that never sets an origin and tries a relative name right after an $INCLUDE
    // (the included file may have set an origin of its own, or got one from the directive: it must not leak back)
    let no_origin_top = depth_hint == 2;
    let mut want_rel_probe = false;
    for _ in 0..nitems {
        let mut k = r.gen_range(0..100);
        if no_origin_top && k < 10 { k = 50; }
        if want_rel_probe { k = 99; }
        if k < 10 {
            let o = pool.choose(r).unwrap().clone();
            let (t, _) = name_text(r, &o, &None, false);
            text.extend_from_slice(rcase(r, "$ORIGIN").as_bytes());
            text.extend(sep(r));
            text.extend(t);
            if r.gen_bool(0.3) { text.extend_from_slice(b" ; set origin"); }
            text.extend_from_slice(eol);
            items.push(json!({"k": "origin", "name": wire(&o), "nl": 1}));
            origin = Some(o);
        } else if k < 18 {
            let v: u32 = *[0u32, 1, 300, 86400, 2147483647].choose(r).unwrap();
            text.extend_from_slice(rcase(r, "$TTL").as_bytes());
            text.extend(sep(r));
            text.extend_from_slice(v.to_string().as_bytes());
            text.extend_from_slice(eol);
            items.push(json!({"k": "ttl", "v": v, "nl": 1}));
            has_ttl_src = true;
        } else if k < 26 {
            match r.gen_range(0..4) {
                0 => {}
                1 => text.extend_from_slice(b"   \t"),
                2 => text.extend_from_slice(b"; a comment ( with \" stuff"),
                _ => text.extend_from_slice(b" \t; indented comment )"),
            }
            text.extend_from_slice(eol);
            items.push(json!({"k": "blank", "nl": 1}));
        } else if k < 40 && !pending_includes.is_empty() {
            let (idx, path) = pending_includes.remove(0);
            let with_origin = r.gen_bool(0.5);
            let o = pool.choose(r).unwrap().clone();
            text.extend_from_slice(rcase(r, "$INCLUDE").as_bytes());
            text.extend(sep(r));
            text.extend_from_slice(path.as_bytes());
            if with_origin {
                let (t, _) = name_text(r, &o, &None, false);
                text.extend(sep(r));
                text.extend(t);
            }
            if r.gen_bool(0.2) { text.extend_from_slice(b" ; pull it in"); }
            text.extend_from_slice(eol);
            items.push(json!({"k": "include", "file": idx, "horigin": with_origin, "origin": if with_origin { wire(&o) } else { vec![0] }, "nl": 1}));
            if no_origin_top && r.gen_bool(0.5) { want_rel_probe = true; }
            // after an include the previous class is whatever the included file left: the next record names its class
            // explicitly so that the renderer knows which RDATA presentation is legal
            has_class = false;
        } else {
            let mut owner: Labels = pool.choose(r).unwrap().clone();
            if let Some(o) = &origin {
                if r.gen_bool(0.6) {
                    let mut x = vec![rand_label(r)];
                    x.extend(o.clone());
                    owner = x;
                    if r.gen_bool(0.2) { owner = o.clone(); }
                }
            }
            let mut line: Vec<u8> = Vec::new();
            let mut early = false;
            let oform;
            if (want_rel_probe && origin.is_none()) || (rel_without_origin && origin.is_none() && first && r.gen_bool(0.3)) {
                rel_without_origin = false;
                want_rel_probe = false;
                if r.gen_bool(0.5) {
                    line.extend_from_slice(b"@");
                    oform = json!({"form": "at", "labels": [], "name": [0]});
                } else {
                    line.extend_from_slice(b"relname");
                    oform = json!({"form": "rel", "labels": [b"relname".to_vec()], "name": [0]});
                }
            } else if (has_prev || (broken && r.gen_bool(0.3))) && r.gen_bool(0.3) {
                line.extend(sep(r));
                oform = json!({"form": "blank", "labels": [], "name": [0]});
            } else {
                // now and then the record's parenthesis opens before its first field, and the owner follows on the next
                // physical line: the record still belongs to the line on which its logical line began
                if r.gen_bool(0.06) {
                    early = true;
                    line.push(b'(');
                    if r.gen_bool(0.3) { line.extend_from_slice(b" ; opens early"); }
                    line.extend_from_slice(eol);
                }
                let (t, f) = name_text(r, &owner, &origin, true);
                line.extend(t);
                oform = f;
            }
            let ttl_v: u32 = *[0u32, 5, 3600, 604800, 2147483647].choose(r).unwrap();
            let class_v: u16 = *[1u16, 1, 1, 3, 4, 65280].choose(r).unwrap();
            let ttl_p = (!has_ttl_src && !broken) || r.gen_bool(0.5);
            // in an included file the class in force is the includer's and unknown here: never omit the class there
            // before this file has named one (the RDATA presentation depends on it); TTL and owner may be inherited
            let class_p = (!has_class && (!broken || !first)) || r.gen_bool(0.5);
            let class_txt = match class_v {
                1 => rcase(r, "IN"),
                3 => rcase(r, "CH"),
                4 => rcase(r, "HS"),
                c => if r.gen_bool(0.5) { format!("CLASS{}", c) } else { format!("class{}", c) },
            };
            let order_tc = r.gen_bool(0.5);
            let mut fields: Vec<Vec<u8>> = Vec::new();
            if order_tc {
                if ttl_p { fields.push(ttl_v.to_string().into_bytes()); }
                if class_p { fields.push(class_txt.clone().into_bytes()); }
            } else {
                if class_p { fields.push(class_txt.clone().into_bytes()); }
                if ttl_p { fields.push(ttl_v.to_string().into_bytes()); }
            }
            let eff_class = if class_p { class_v } else { prev_class };
            let mut rd = gen_rdata(r, eff_class, &pool, &origin);
            fields.push(std::mem::take(&mut rd.ty_txt).into_bytes());
            let mut nl = if early { 2 } else { 1 };
            for f in &fields {
                line.extend(sep(r));
                line.extend(f);
            }
            let paren = !early && r.gen_bool(0.3);
            if paren {
                line.extend(sep(r));
                line.push(b'(');
            }
            for f in rd.fields.drain(..) {
                if paren && r.gen_bool(0.5) {
                    if r.gen_bool(0.5) { line.extend_from_slice(b" ; note )"); }
                    line.extend_from_slice(eol);
                    nl += 1;
                    line.extend_from_slice(b"  ");
                } else {
                    line.extend(sep(r));
                }
                line.extend(f);
            }
            if paren {
                if r.gen_bool(0.5) {
                    line.extend_from_slice(eol);
                    nl += 1;
                }
                line.extend_from_slice(b" )");
            }
            if early { line.extend_from_slice(b" )"); }
            if r.gen_bool(0.2) { line.extend_from_slice(b" ; trailing comment"); }
            line.extend_from_slice(eol);
            text.extend(line);
            items.push(json!({"k": "rec", "owner": oform, "httl": ttl_p, "ttl": if ttl_p { ttl_v } else { 0 }, "hclass": class_p, "class": if class_p { class_v } else { 0 },
                              "type": rd.ty, "rdata": rd.rdata, "nl": nl}));
            has_prev = true;
            has_ttl_src = true;
            has_class = true;
            prev_class = eff_class;
        }
    }
    // any include that was not placed goes to the end
    for (idx, path) in pending_includes {
        text.extend_from_slice(b"$INCLUDE ");
        text.extend_from_slice(path.as_bytes());
        text.extend_from_slice(eol);
        items.push(json!({"k": "include", "file": idx, "horigin": false, "origin": [0], "nl": 1}));
    }
    // sometimes no final line terminator
    if !crlf && r.gen_bool(0.15) && text.last() == Some(&b'\n') && !matches!(items.last().and_then(|i| i["k"].as_str()), Some("blank")) {
        text.pop();
    }
    // a big CRLF file: shift everything by a leading comment line so that the CR of some line end is the last octet of the
    // parser's first 16 KiB read (offset 16383) and its LF the first octet of the next one
    if crlf && text.len() > 17000 {
        if let Some(p) = (0..=16383usize.min(text.len() - 1)).rev().find(|&i| text[i] == b'\r' && 16383 - i >= 3 && text.get(i + 1) == Some(&b'\n')) {
            let pad = 16383 - p;
            let mut line = vec![b';'];
            line.extend(std::iter::repeat(b'p').take(pad - 3));
            line.extend_from_slice(b"\r\n");
            line.extend_from_slice(&text);
            text = line;
            items.insert(0, json!({"k": "blank", "nl": 1}));
        }
    }
    Rendered { text, items }
}

fn jrec(line: usize, rr: &quandary::zone_file::ParsedRr) -> Value {
    json!({"k": "rec", "line": line, "owner": rr.owner.wire_repr().to_vec(), "ttl": u32::from(rr.ttl), "class": u16::from(rr.class),
           "type": u16::from(rr.rr_type), "rdata": rr.rdata.octets().to_vec()})
}

fn parse_mem(text: &[u8]) -> Vec<Value> {
    let t = text.to_vec();
    match catch_unwind(move || {
        let mut v = Vec::new();
        for item in Parser::new(Cursor::new(t)) {
            match item {
                Ok(line) => match line.content {
                    LineContent::Record(rr) => v.push(jrec(line.number, &rr)),
                    LineContent::Include(_) => v.push(json!({"k": "include"})),
                },
                Err(_) => v.push(json!({"k": "err"})),
            }
            if v.len() > 20000 { break; }
        }
        v
    }) {
        Ok(v) => v,
        Err(_) => vec![json!({"k": "panic"})],
    }
}

/// The same input through `Parser::records_only()` (an $INCLUDE becomes an error there).
fn parse_mem_records_only(text: &[u8]) -> Vec<Value> {
    let t = text.to_vec();
    match catch_unwind(move || {
        let mut v = Vec::new();
        for item in Parser::new(Cursor::new(t)).records_only() {
            match item {
                Ok(line) => v.push(jrec(line.number, &line.record)),
                Err(_) => v.push(json!({"k": "err"})),
            }
            if v.len() > 20000 { break; }
        }
        v
    }) {
        Ok(v) => v,
        Err(_) => vec![json!({"k": "panic"})],
    }
}

// ---------------------------------------------------------------- C24

fn fuzz(r: &mut StdRng, n: usize, out: &mut Out) {
    let toks: Vec<&[u8]> = vec![
        b"$ORIGIN", b"$TTL", b"$INCLUDE", b"@", b".", b"IN", b"CH", b"HS", b"A", b"NS", b"TXT", b"SOA", b"MX", b"SRV", b"WKS", b"HINFO", b"AAAA", b"NULL", b"OPT", b"TSIG",
        b"TYPE10", b"TYPE41", b"TYPE250", b"TYPE1", b"TYPE2", b"TYPE6", b"TYPE15", b"TYPE16", b"TYPE28", b"TYPE33", b"TYPE65280", b"CLASS1", b"CLASS3", b"\\#", b"4", b"0", b"1", b"2", b"16", b"3",
        b"01020304", b"00", b"0161", b"016100", b"c00c", b"0001", b"1.2.3.4", b"::1", b"(", b")", b";", b"\"", b"\\", b"\n", b"\r\n", b" ", b"\t", b"a.b.", b"rel", b"3600", b"99999999999",
        b"\\000", b"\\999", b"x\\", b"tcp", b"25", b"65535", b"65536", b"ch.", b"777", b"\"q s\"",
    ];
    let seeds: Vec<Vec<u8>> = (0..40).map(|_| render_file(r, &[], 0, true).text).collect();
    for i in 0..n {
        let text: Vec<u8> = match r.gen_range(0..10) {
            0 | 1 => (0..r.gen_range(0..200)).map(|_| r.gen()).collect(),
            2..=5 => {
                let mut t = Vec::new();
                for _ in 0..r.gen_range(0..60) {
                    t.extend_from_slice(toks.choose(r).unwrap());
                    if r.gen_bool(0.7) { t.push(b' '); }
                }
                t
            }
            6 => {
                // structured: a record skeleton with generic RDATA of a known type and random hex (validity decided by the parser)
                let ty = *[1u16, 2, 5, 6, 10, 11, 12, 13, 14, 15, 16, 28, 33, 41, 250, 99].choose(r).unwrap();
                let class = *["IN", "CH", "HS", "CLASS9"].choose(r).unwrap();
                let rd: Vec<u8> = match r.gen_range(0..5) {
                    // a name, a 16-bit address and sometimes more (class CH type A takes exactly the first two)
                    4 => { let mut v = w("lan.ch."); v.extend_from_slice(&[1, 1]); for _ in 0..r.gen_range(0..3) { v.push(7); } v }
                    0 => (0..r.gen_range(0..24)).map(|_| r.gen()).collect(),
                    1 => { let mut v = w("a.b."); if r.gen_bool(0.5) { v.extend_from_slice(&[0, 1]); } v }
                    2 => vec![1, 2, 3, 4],
                    _ => { let mut v = vec![0, 5]; v.extend(w("mx.example.")); if r.gen_bool(0.3) { v.push(7); } v }
                };
                let len = if r.gen_bool(0.85) { rd.len() } else { r.gen_range(0..30) };
                let hex: String = rd.iter().map(|b| format!("{:02x}", b)).collect();
                format!("x. 5 {} TYPE{} \\# {} {}\n", class, ty, len, hex).into_bytes()
            }
            7 if r.gen_bool(0.6) => {
                // a record line whose TTL / class / type field is valid UTF-8 but not ASCII (multi-octet characters at
                // every offset of the field), or an ASCII near-miss of a mnemonic
                let odd = ["abc\u{e9}", "ab\u{20ac}x", "a\u{1F600}1", "\u{e9}", "TYP\u{c9}1", "TYPE\u{661}", "CLAS\u{17f}1", "I\u{274}", "typ", "TYPE", "CLASS", "TYPE65536", "1\u{e9}"];
                let f = |r: &mut StdRng| -> String { if r.gen_bool(0.6) { odd.choose(r).unwrap().to_string() } else { ["IN", "CH", "5", "A", "TXT", "TYPE1"].choose(r).unwrap().to_string() } };
                format!("x. {} {} {} \\# 0\ny. 5 IN {} \\# 0\n", f(r), f(r), f(r), f(r)).into_bytes()
            }
            7 => {
                // oversized fields
                let big = r.gen_range(65000..70000usize);
                let mut t = b"a. 5 IN TXT ".to_vec();
                t.extend(std::iter::repeat(b'x').take(if i % 5 == 0 { big } else { 300 }));
                t.push(b'\n');
                t
            }
            8 => {
                // a valid file with a (syntactically fine) $INCLUDE line somewhere in the middle
                let t = seeds.choose(r).unwrap().clone();
                let cut = t.iter().enumerate().filter(|(_, c)| **c == b'\n').map(|(i, _)| i + 1).nth(r.gen_range(0..6)).unwrap_or(0);
                let mut u = t[..cut].to_vec();
                u.extend_from_slice(if r.gen_bool(0.5) { b"$INCLUDE other.zone\n" } else { b"$INCLUDE sub/other.zone sub.example.\n" });
                u.extend_from_slice(&t[cut..]);
                u
            }
            _ => {
                let mut t = seeds.choose(r).unwrap().clone();
                for _ in 0..r.gen_range(1..4) {
                    if t.is_empty() { break; }
                    let k = r.gen_range(0..t.len());
                    match r.gen_range(0..5) {
                        0 => t.truncate(k),
                        1 => t.insert(k, *b"()\";\\\n$@ .".choose(r).unwrap()),
                        2 => { t.remove(k); }
                        3 => t[k] = r.gen(),
                        _ => { let j = r.gen_range(0..t.len()); t.swap(k, j); }
                    }
                }
                t
            }
        };
        let t0 = std::time::Instant::now();
        let items = parse_mem(&text);
        let items_ro = parse_mem_records_only(&text);
        let ms = t0.elapsed().as_millis() as u64;
        // records are logged without line numbers here; "slow" marks a parse that took implausibly long for its size
        out.emit(json!({"ev": "Fuzz", "len": text.len(), "items": items, "items_ro": items_ro, "slow": ms > 20000, "text": String::from_utf8_lossy(&text[..text.len().min(300)])}));
    }
}

// ---------------------------------------------------------------- C25

fn rel_path(from_dir: &str, to_dir: &str, file: &str) -> String {
    let mut rel = PathBuf::new();
    for _ in Path::new(from_dir).components() { rel.push(".."); }
    rel.push(to_dir);
    rel.push(file);
    rel.display().to_string()
}

/// What the real include-following parser yields for the tree whose top file is `top` (file indices by canonical path).
fn parse_tree(top: &Path, max_depth: usize, canon: &[PathBuf]) -> Vec<Value> {
    use quandary::zone_file::fs;
    match catch_unwind(AssertUnwindSafe(|| {
        let mut got: Vec<Value> = Vec::new();
        match fs::Parser::open(top, max_depth) {
            Ok(p) => {
                for line in p {
                    match line {
                        Ok(l) => {
                            let idx = std::fs::canonicalize(l.path.as_ref()).ok().and_then(|c| canon.iter().position(|x| *x == c)).unwrap_or(999);
                            let mut v = jrec(l.number, &l.record);
                            v["file"] = json!(idx);
                            got.push(v);
                        }
                        Err(_) => got.push(json!({"k": "err"})),
                    }
                    if got.len() > 20000 { break; }
                }
            }
            Err(_) => got.push(json!({"k": "err"})),
        }
        got
    })) {
        Ok(g) => g,
        Err(_) => vec![json!({"k": "panic"})],
    }
}

fn name_of_octets(v: &Value) -> String {
    let wire: Vec<u8> = v.as_array().unwrap().iter().map(|o| o.as_u64().unwrap() as u8).collect();
    name_of_wire(&wire).to_string()
}

/// (G) qv zonefile replay <trees> <out> <scratch>: every line of <trees> is one initial state of MC_ZoneFile as
/// exported by TLC ({"files": [items of file 0, 1, 2], "md": depth limit}); the items are rendered as text (file i
/// into its own directory, $INCLUDE paths relative to the including file's directory), the real parser follows the
/// includes, and the result is recorded in the format of the random trees ("Tree").
fn replay_trees(hist: &str, out: &mut Out, scratch: &Path) {
    let text = std::fs::read_to_string(hist).expect("cannot read trees");
    let base = scratch.join(format!("zfr-{}", std::process::id()));
    let dirs = ["top", "top/sub", "x/y"];
    for (t, line) in text.lines().filter(|l| !l.trim().is_empty()).enumerate() {
        let tree: Value = serde_json::from_str(line).expect("bad tree line");
        let files = tree["files"].as_array().unwrap();
        let md = tree["md"].as_u64().unwrap() as usize;
        let tdir = base.join(format!("t{}", t));
        let _ = std::fs::remove_dir_all(&tdir);
        let root = tdir.join("p").join("q");
        let mut canon: Vec<PathBuf> = Vec::new();
        for (i, f) in files.iter().enumerate() {
            let mut txt = String::new();
            for it in f.as_array().unwrap() {
                match it["k"].as_str().unwrap() {
                    "origin" => txt.push_str(&format!("$ORIGIN {}\n", name_of_octets(&it["name"]))),
                    "ttl" => { txt.push_str(&format!("$TTL {}\n", it["v"])); for _ in 1..it["nl"].as_u64().unwrap() { txt.push('\n'); } }
                    "include" => {
                        let j = it["file"].as_u64().unwrap() as usize;
                        let path = if j < files.len() { rel_path(dirs[i], dirs[j], &format!("f{}.zone", j)) } else { "gone.zone".to_string() };
                        txt.push_str(&format!("$INCLUDE {}{}\n", path, if it["horigin"].as_bool().unwrap() { format!(" {}", name_of_octets(&it["origin"])) } else { String::new() }));
                    }
                    "rec" => {
                        let o = &it["owner"];
                        let owner = match o["form"].as_str().unwrap() {
                            "abs" => name_of_octets(&o["name"]),
                            "rel" => o["labels"].as_array().unwrap().iter().map(|l| l.as_array().unwrap().iter().map(|c| c.as_u64().unwrap() as u8 as char).collect::<String>()).collect::<Vec<_>>().join("."),
                            "at" => "@".to_string(),
                            _ => String::new(),
                        };
                        let rd: Vec<String> = it["rdata"].as_array().unwrap().iter().map(|c| c.to_string()).collect();
                        txt.push_str(&format!("{} {}{}A {}\n", owner, if it["httl"].as_bool().unwrap() { format!("{} ", it["ttl"]) } else { String::new() },
                                              if it["hclass"].as_bool().unwrap() { "IN " } else { "" }, rd.join(".")));
                    }
                    k => panic!("unknown item kind {}", k),
                }
            }
            let d = root.join(dirs[i]);
            std::fs::create_dir_all(&d).unwrap();
            let p = d.join(format!("f{}.zone", i));
            std::fs::write(&p, txt.as_bytes()).unwrap();
            canon.push(std::fs::canonicalize(&p).unwrap());
        }
        let got = parse_tree(&root.join("top").join("f0.zone"), md, &canon);
        let jfiles: Vec<Value> = files.iter().map(|f| json!({"items": f})).collect();
        out.emit(json!({"ev": "Tree", "files": jfiles, "max_depth": md, "got": got}));
        let _ = std::fs::remove_dir_all(&tdir);
    }
    let _ = std::fs::remove_dir_all(&base);
}

fn fs_trees(r: &mut StdRng, n: usize, out: &mut Out, scratch: &Path) {
    let base = scratch.join(format!("zf-{}", std::process::id()));
    for t in 0..n {
        // the tree root sits four levels below its own scratch directory so that a path resolved against the
        // wrong directory (decoys below) can climb out of the root without leaving the scratch directory
        let tdir = base.join(format!("t{}", t));
        let _ = std::fs::remove_dir_all(&tdir);
        let root = tdir.join("p").join("q").join("r").join("s");
        let nfiles = r.gen_range(1..7usize);
        let dirs: Vec<String> = (0..nfiles).map(|i| if i == 0 { "top".into() } else { ["top", "top/sub", "top/sub/deeper", "x", "x/y"].choose(r).unwrap().to_string() }).collect();
        // (now and then "no limit" spelled as a huge number: it behaves like any limit the tree does not reach)
        let max_depth = if r.gen_bool(0.06) { *[usize::MAX, usize::MAX - 1, usize::MAX / 2, u32::MAX as usize].choose(r).unwrap() } else { r.gen_range(0..5usize) };
        let missing = r.gen_bool(0.1);
        // a fifth of the trees: included files whose names are not UTF-8 (a Latin-1 e-acute), written with a decimal escape
        let odd_names = r.gen_bool(0.2);
        let disk_name = |j: usize| -> std::ffi::OsString {
            use std::os::unix::ffi::OsStringExt;
            if odd_names && j > 0 { let mut v = format!("f{}", j).into_bytes(); v.push(0xe9); v.extend_from_slice(b".zone"); std::ffi::OsString::from_vec(v) }
            else { format!("f{}.zone", j).into() }
        };
        let text_name = |j: usize| -> String { if odd_names && j > 0 { format!("f{}\\233.zone", j) } else { format!("f{}.zone", j) } };
        // include plan: file i includes some later files (acyclic); each file is included at most once
        let mut incl: Vec<Vec<(usize, String)>> = vec![Vec::new(); nfiles];
        for j in 1..nfiles {
            let i = r.gen_range(0..j);
            incl[i].push((j, rel_path(&dirs[i], &dirs[j], &text_name(j))));
        }
        if missing {
            let i = r.gen_range(0..nfiles);
            incl[i].push((nfiles, rel_path(&dirs[i], "nowhere", "gone.zone")));
        }
        let mut files: Vec<Value> = Vec::new();
        let mut texts: Vec<Vec<u8>> = Vec::new();
        for i in 0..nfiles {
            let f = render_file(r, &incl[i], if i == 0 && t % 3 == 0 { 2 } else { 0 }, i == 0);
            files.push(json!({"items": f.items}));
            texts.push(f.text);
        }
        let mut canon: Vec<PathBuf> = Vec::new();
        for i in 0..nfiles {
            let d = root.join(&dirs[i]);
            std::fs::create_dir_all(&d).unwrap();
            let p = d.join(disk_name(i));
            std::fs::write(&p, &texts[i]).unwrap();
            canon.push(std::fs::canonicalize(&p).unwrap());
        }
        // decoys: the same relative path resolved against the wrong directory (the top file's, the tree root, the
        // process's working directory is not writable here) leads to a file with a recognisable foreign record
        for i in 0..nfiles {
            for (j, path) in &incl[i] {
                if *j >= nfiles { continue; }
                for wrong in [root.join("top"), root.clone()] {
                    let p = wrong.join(Path::new(path).parent().unwrap_or(Path::new(""))).join(disk_name(*j));
                    if let Some(parent) = p.parent() { let _ = std::fs::create_dir_all(parent); }
                    let exists = p.exists();
                    if !exists { let _ = std::fs::write(&p, b"decoy.invalid. 1 IN A 6.6.6.6\n"); }
                }
            }
        }
        let got = parse_tree(&root.join("top").join("f0.zone"), max_depth, &canon);
        out.emit(json!({"ev": "Tree", "files": files, "max_depth": max_depth.min(1000), "got": got}));
        let _ = std::fs::remove_dir_all(&tdir);
    }
    let _ = std::fs::remove_dir_all(&base);
}
