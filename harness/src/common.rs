//! Shared helpers for all drivers: ND-JSON output, name/RDATA encoders that do
//! not use quandary's own serialisers, an independent TSIG signer, and the
//! wrapper that calls the real `Server::handle_message` under `catch_unwind`.

use std::fs::File;
use std::io::{BufWriter, Write};
use std::net::IpAddr;
use std::panic::{catch_unwind, AssertUnwindSafe};
use std::time::{SystemTime, UNIX_EPOCH};

use hmac::{Hmac, Mac};
use quandary::db::Catalog;
use quandary::name::Name;
use quandary::server::{ReceivedInfo, Response, Server, Transport};
use rand::rngs::StdRng;
use rand::Rng;
use serde_json::{json, Value};

pub struct Out {
    w: BufWriter<File>,
    pub n: usize,
}

impl Out {
    pub fn create(path: &str) -> Self {
        Out { w: BufWriter::new(File::create(path).expect("cannot create trace file")), n: 0 }
    }
    pub fn emit(&mut self, v: Value) {
        writeln!(self.w, "{}", v).unwrap();
        self.n += 1;
    }
    pub fn finish(mut self) -> usize {
        self.w.flush().unwrap();
        self.n
    }
}

static LAST_PANIC: std::sync::Mutex<String> = std::sync::Mutex::new(String::new());

/// Where the most recent panic of this process was raised ("file:line"), as recorded by the hook of `silence_panics`.
pub fn last_panic_location() -> String {
    LAST_PANIC.lock().map(|s| s.clone()).unwrap_or_default()
}

/// Panics of the code under test are outcomes that the drivers record: do not print them, but remember where the
/// last one was raised.
pub fn silence_panics() {
    static ONCE: std::sync::Once = std::sync::Once::new();
    ONCE.call_once(|| {
        let show = std::env::var("QV_SHOW_PANICS").is_ok();
        let default = std::panic::take_hook();
        std::panic::set_hook(Box::new(move |info| {
            if let (Some(l), Ok(mut s)) = (info.location(), LAST_PANIC.lock()) {
                *s = format!("{}:{}", l.file(), l.line());
            }
            if show { default(info); }
        }));
    });
}

pub fn nm(s: &str) -> Box<Name> {
    s.parse().unwrap_or_else(|_| panic!("bad name literal {:?}", s))
}

/// Wire form of a name given as labels (leaf first), written by the harness itself.
pub fn wire_of_labels(labels: &[Vec<u8>]) -> Vec<u8> {
    let mut v = Vec::new();
    for l in labels {
        assert!(!l.is_empty() && l.len() <= 63);
        v.push(l.len() as u8);
        v.extend_from_slice(l);
    }
    v.push(0);
    v
}

/// Wire form of a dotted ASCII name without escapes ("a.b." / ".").
pub fn w(s: &str) -> Vec<u8> {
    if s == "." {
        return vec![0];
    }
    if s.contains('\\') {
        // a name with decimal escapes (caf\233.example.): the crate's own text parser (C16 judges it)
        return nm(s).wire_repr().to_vec();
    }
    assert!(s.ends_with('.'), "name {:?} must be absolute", s);
    let labels: Vec<Vec<u8>> = s[..s.len() - 1].split('.').map(|l| l.as_bytes().to_vec()).collect();
    wire_of_labels(&labels)
}

/// A name that is NOT a subdomain of `apex` although its octets end exactly like the apex's: its first label is
/// "x" followed by the length octet and the octets of the apex's first label ("x\\003www.example." for
/// "www.example."). Text form with a decimal escape; None for the root and when the label would exceed 63 octets.
pub fn tail_trick(apex: &str) -> Option<String> {
    if apex == "." { return None; }
    let first = apex.split('.').next().unwrap();
    if first.contains('\\') || first.len() + 2 > 63 || apex.len() + 3 > 250 { return None; }
    Some(format!("x\\{:03}{}", first.len(), apex))
}

/// The same on wire forms.
pub fn tail_trick_wire(apex: &[u8]) -> Option<Vec<u8>> {
    let l = apex[0] as usize;
    if l == 0 || l + 2 > 63 || apex.len() + 2 > 255 { return None; }
    let mut v = vec![(l + 2) as u8, b'x'];
    v.extend_from_slice(apex);
    Some(v)
}

/// The name with bit 5 flipped in some label octets that are NOT ASCII letters ('_' <-> DEL, '@' <-> '`', '*' <-> LF,
/// '-' <-> CR, digits <-> control characters): a different name, although a case fold by `| 0x20` would equate them.
pub fn bit5_variant(r: &mut StdRng, wire: &[u8]) -> Vec<u8> {
    let mut v = wire.to_vec();
    let mut i = 0;
    let mut changed = false;
    while i < v.len() && v[i] != 0 {
        let l = v[i] as usize;
        for k in i + 1..=i + l {
            if !v[k].is_ascii_alphabetic() && (r.gen_bool(0.5) || !changed) { v[k] ^= 0x20; changed = true; }
        }
        i += l + 1;
    }
    v
}

pub fn name_of_wire(wire: &[u8]) -> Box<Name> {
    Name::try_from_uncompressed_all(wire).expect("harness produced an invalid name")
}

pub fn rand_case(r: &mut StdRng, s: &str) -> String {
    s.chars().map(|c| if r.gen_bool(0.3) { c.to_ascii_uppercase() } else { c }).collect()
}

pub fn unix_now() -> u64 {
    SystemTime::now().duration_since(UNIX_EPOCH).unwrap().as_secs()
}

pub fn tname(t: Transport) -> &'static str {
    match t {
        Transport::Udp => "udp",
        Transport::Tcp => "tcp",
    }
}

/// Calls the real server; a panic is data ("out":"panic").
pub fn handle<C: Catalog>(server: &Server<C>, req: &[u8], t: Transport, src: IpAddr) -> Value {
    // not zeroed: a response must not depend on what the buffer held before (the I/O providers reuse theirs)
    let mut buf = vec![0xFFu8; 65535];
    let t0 = unix_now();
    let r = catch_unwind(AssertUnwindSafe(|| server.handle_message(req, ReceivedInfo::new(src, t), &mut buf)));
    let t1 = unix_now();
    let mut v = match r {
        Ok(Response::Single(n)) => json!({"out": "resp", "resp": buf[..n].to_vec()}),
        Ok(Response::None) => json!({"out": "none", "resp": []}),
        Err(_) => json!({"out": "panic", "resp": []}),
    };
    v["ev"] = json!("Req");
    v["transport"] = json!(tname(t));
    v["req"] = json!(req);
    v["t0"] = json!(t0);
    v["t1"] = json!(t1);
    v
}

// ---------------------------------------------------------------- request encoder

#[derive(Clone)]
pub struct Query {
    pub id: u16,
    pub flags: u16,
    pub qname: Vec<u8>,
    pub qtype: u16,
    pub qclass: u16,
}

impl Query {
    pub fn encode(&self) -> Vec<u8> {
        let mut m = Vec::with_capacity(64);
        m.extend_from_slice(&self.id.to_be_bytes());
        m.extend_from_slice(&self.flags.to_be_bytes());
        m.extend_from_slice(&[0, 1, 0, 0, 0, 0, 0, 0]);
        m.extend_from_slice(&self.qname);
        m.extend_from_slice(&self.qtype.to_be_bytes());
        m.extend_from_slice(&self.qclass.to_be_bytes());
        m
    }
}

pub fn rr(owner: &[u8], ty: u16, class: u16, ttl: u32, rdata: &[u8]) -> Vec<u8> {
    let mut v = owner.to_vec();
    v.extend_from_slice(&ty.to_be_bytes());
    v.extend_from_slice(&class.to_be_bytes());
    v.extend_from_slice(&ttl.to_be_bytes());
    v.extend_from_slice(&(rdata.len() as u16).to_be_bytes());
    v.extend_from_slice(rdata);
    v
}

pub fn opt_rr(size: u16, ttl: u32, owner: &[u8], rdata: &[u8]) -> Vec<u8> {
    rr(owner, 41, size, ttl, rdata)
}

/// Appends a record to the additional section (ARCOUNT += 1).
pub fn push_additional(m: &mut Vec<u8>, rr: &[u8]) {
    let n = u16::from_be_bytes([m[10], m[11]]).wrapping_add(1);
    m[10..12].copy_from_slice(&n.to_be_bytes());
    m.extend_from_slice(rr);
}

// ---------------------------------------------------------------- independent TSIG signer (RFC 8945 4.3)

#[derive(Clone, Copy, PartialEq, Eq, Debug)]
pub enum Alg {
    Sha1,
    Sha256,
}

impl Alg {
    pub fn name(self) -> &'static str {
        match self {
            Alg::Sha1 => "hmac-sha1.",
            Alg::Sha256 => "hmac-sha256.",
        }
    }
    pub fn tag(self) -> &'static str {
        match self {
            Alg::Sha1 => "sha1",
            Alg::Sha256 => "sha256",
        }
    }
    pub fn out_len(self) -> usize {
        match self {
            Alg::Sha1 => 20,
            Alg::Sha256 => 32,
        }
    }
}

pub fn hmac(alg: Alg, key: &[u8], data: &[u8]) -> Vec<u8> {
    match alg {
        Alg::Sha1 => {
            let mut m = Hmac::<sha1::Sha1>::new_from_slice(key).unwrap();
            m.update(data);
            m.finalize().into_bytes().to_vec()
        }
        Alg::Sha256 => {
            let mut m = Hmac::<sha2::Sha256>::new_from_slice(key).unwrap();
            m.update(data);
            m.finalize().into_bytes().to_vec()
        }
    }
}

pub struct TsigParams {
    pub key_name: Vec<u8>,  // wire form as sent (any case)
    pub alg_name: Vec<u8>,  // wire form as sent
    pub time: u64,          // 48-bit
    pub fudge: u16,
    pub orig_id: u16,
    pub error: u16,
    pub other: Vec<u8>,
    pub class: u16,
    pub ttl: u32,
}

fn lower(v: &[u8]) -> Vec<u8> {
    // lower-case a wire-form name (length octets are <= 63 and unaffected)
    v.iter().map(|b| b.to_ascii_lowercase()).collect()
}

/// Request digest: message (with original ID, as it is before the TSIG RR is
/// added) followed by the TSIG variables; names in canonical (lower-case) form.
pub fn tsig_request_digest(msg: &[u8], p: &TsigParams) -> Vec<u8> {
    let mut d = Vec::new();
    d.extend_from_slice(&p.orig_id.to_be_bytes());
    d.extend_from_slice(&msg[2..]);
    d.extend_from_slice(&lower(&p.key_name));
    d.extend_from_slice(&[0, 255, 0, 0, 0, 0]);
    d.extend_from_slice(&lower(&p.alg_name));
    d.extend_from_slice(&p.time.to_be_bytes()[2..8]);
    d.extend_from_slice(&p.fudge.to_be_bytes());
    d.extend_from_slice(&p.error.to_be_bytes());
    d.extend_from_slice(&(p.other.len() as u16).to_be_bytes());
    d.extend_from_slice(&p.other);
    d
}

pub fn tsig_rdata(p: &TsigParams, mac: &[u8]) -> Vec<u8> {
    let mut rd = p.alg_name.clone();
    rd.extend_from_slice(&p.time.to_be_bytes()[2..8]);
    rd.extend_from_slice(&p.fudge.to_be_bytes());
    rd.extend_from_slice(&(mac.len() as u16).to_be_bytes());
    rd.extend_from_slice(mac);
    rd.extend_from_slice(&p.orig_id.to_be_bytes());
    rd.extend_from_slice(&p.error.to_be_bytes());
    rd.extend_from_slice(&(p.other.len() as u16).to_be_bytes());
    rd.extend_from_slice(&p.other);
    rd
}

/// Signs `m` (a complete message without TSIG) and appends the TSIG RR.
/// `mac_len`: None = full MAC, Some(n) = left-truncated to n (n may exceed the output size: padded with zeros).
pub fn tsig_sign(m: &mut Vec<u8>, p: &TsigParams, alg: Alg, secret: &[u8], mac_len: Option<usize>) -> Vec<u8> {
    let full = hmac(alg, secret, &tsig_request_digest(m, p));
    let mut mac = full.clone();
    if let Some(n) = mac_len {
        mac.resize(n, 0);
    }
    let rd = tsig_rdata(p, &mac);
    let rec = rr(&p.key_name, 250, p.class, p.ttl, &rd);
    push_additional(m, &rec);
    full
}
