//! Random catalogs built through the public zone API. The generator returns the
//! real catalog plus its JSON description (the `Cfg` record): for every record
//! that `add` accepted, owner (wire), type, ttl and RDATA octets.

use std::sync::Arc;

use quandary::class::Class;
use quandary::db::catalog::Entry;
use quandary::db::zone::GluePolicy;
use quandary::db::{HashMapTreeCatalog, HashMapTreeZone};
use quandary::rr::{Rdata, Ttl, Type};
use rand::rngs::StdRng;
use rand::seq::SliceRandom;
use rand::Rng;
use serde_json::{json, Value};

use crate::common::*;

pub type Cat = HashMapTreeCatalog<HashMapTreeZone, ()>;

pub struct Rec {
    pub owner: String,
    pub ty: u16,
    pub ttl: u32,
    pub rdata: Vec<u8>,
}

#[derive(Clone, Copy)]
pub struct ZoneOpts {
    pub big: bool,      // fat RRsets and delegations (sizes straddling 512 / EDNS sizes)
    pub weird: bool,    // things validation would reject: no SOA, CNAME + data, malformed RDATA
    pub chains: bool,   // deliberate CNAME chains 0..10 and loops
}

fn addr_rdata(r: &mut StdRng, class: u16) -> Vec<u8> {
    if class == 3 {
        let mut v = w("lan.chaos.");
        v.extend_from_slice(&[r.gen(), r.gen()]);
        v
    } else {
        vec![192, 0, 2, r.gen()]
    }
}

/// Records of one zone. `children`: apexes of delegated children (NS + glue are generated here).
pub fn gen_zone(r: &mut StdRng, apex: &str, class: u16, children: &[&str], o: ZoneOpts) -> Vec<Rec> {
    let labels = ["a", "b", "c", "*", "ns", "mx", "www", "d"];
    let mut owners: Vec<String> = vec![apex.to_string()];
    for _ in 0..r.gen_range(3..9) {
        let depth = r.gen_range(1..=3);
        let mut s = String::new();
        for _ in 0..depth {
            s.push_str(labels.choose(r).unwrap());
            s.push('.');
        }
        if apex != "." { s.push_str(apex); }
        owners.push(s);
    }
    for c in children {
        owners.push(c.to_string());
        owners.push(format!("ns.{}", c));
    }
    // (the root and a top-level name: targets with fewer labels than most apexes - null MX, CNAME to a parent domain)
    let out_of_zone = ["ns.elsewhere.", "mail.other.", ".", "test.", "ns.elsewhere.", "mail.other."];
    let mut recs: Vec<Rec> = Vec::new();
    let sub = |l: &str| -> String { if apex == "." { format!("{}.", l) } else { format!("{}.{}", l, apex) } };
    let has_soa = !o.weird || r.gen_bool(0.6);
    if o.weird && r.gen_bool(0.3) {
        // an apex SOA whose names are fine but whose fixed part is short / long (the zone API accepts any octets)
        let mut rd = w(&sub("ns"));
        rd.extend(w(&sub("admin")));
        let extra = *[0usize, 1, 4, 15, 16, 19, 21].choose(r).unwrap();
        rd.extend((0..extra).map(|_| r.gen::<u8>()));
        recs.push(Rec { owner: apex.into(), ty: 6, ttl: 77, rdata: rd });
    } else if has_soa {
        let soa_ttl = *[30u32, 300, 3600, 86400].choose(r).unwrap();
        let minimum = *[0u32, 60, 300, 7200].choose(r).unwrap();
        // big zones, half of the time: an SOA whose MNAME and RNAME are long names elsewhere (nothing to compress them
        // against): a negative answer for a long QNAME then does not fit 512 octets
        let long_soa = o.big && r.gen_bool(0.5);
        let mut rd = if long_soa { w(&format!("{}.{}.{}.primary.elsewhere.", "m".repeat(60), "n".repeat(60), "o".repeat(40))) } else { w(&sub("ns")) };
        rd.extend(if long_soa { w(&format!("{}.{}.{}.hostmaster.other.", "h".repeat(60), "i".repeat(60), "j".repeat(40))) } else { w(&sub("admin")) });
        for v in [1u32, 2, 3, 4, minimum] { rd.extend_from_slice(&v.to_be_bytes()); }
        recs.push(Rec { owner: apex.into(), ty: 6, ttl: soa_ttl, rdata: rd });
    }
    recs.push(Rec { owner: apex.into(), ty: 2, ttl: 3600, rdata: w(&sub("ns")) });
    if r.gen_bool(0.8) {
        recs.push(Rec { owner: sub("ns"), ty: 1, ttl: 300, rdata: addr_rdata(r, class) });
    }
    let mut cname_owners: Vec<String> = Vec::new();
    let n = if o.big { r.gen_range(20..80) } else { r.gen_range(4..20) };
    for _ in 0..n {
        let owner = owners.choose(r).unwrap().clone();
        let owner_cased = rand_case(r, &owner);
        let kind = r.gen_range(0..100);
        let ttl = *[60u32, 300, 3600, 60, 300, 3600, 0, 2147483647].choose(r).unwrap();
        let target = |r: &mut StdRng| -> String {
            if r.gen_bool(0.8) { owners.choose(r).unwrap().clone() } else { out_of_zone.choose(r).unwrap().to_string() }
        };
        // NS at a wildcard owner is left undefined by RFC 4592 4.2: not generated
        let is_wild = owner.starts_with("*.") || owner.contains(".*.");
        let is_cname_owner = cname_owners.contains(&owner);
        if is_cname_owner && !(o.weird && r.gen_bool(0.3)) { continue; }
        if kind < 30 {
            recs.push(Rec { owner: owner_cased, ty: 1, ttl, rdata: addr_rdata(r, class) });
        } else if kind < 40 {
            if class == 1 {
                recs.push(Rec { owner: owner_cased, ty: 28, ttl, rdata: (0..16).map(|_| r.gen()).collect() });
            } else {
                // AAAA outside class IN is opaque data
                recs.push(Rec { owner: owner_cased, ty: 28, ttl, rdata: (0..r.gen_range(1..20)).map(|_| r.gen()).collect() });
            }
        } else if kind < 55 && !is_wild && owner != apex {
            let t = target(r);
            recs.push(Rec { owner: owner_cased, ty: 2, ttl, rdata: w(&rand_case(r, &t)) });
        } else if kind < 70 && owner != apex {
            // CNAME only on owners with no other data so far (unless weird)
            let has_data = recs.iter().any(|x| x.owner.eq_ignore_ascii_case(&owner));
            if has_data && !(o.weird && r.gen_bool(0.3)) { continue; }
            let t = target(r);
            recs.push(Rec { owner: owner_cased, ty: 5, ttl, rdata: w(&t) });
            cname_owners.push(owner.clone());
        } else if kind < 80 {
            let t = target(r);
            let mut rd = vec![0, r.gen_range(0..50)];
            rd.extend(w(&t));
            recs.push(Rec { owner: owner_cased, ty: 15, ttl, rdata: rd });
        } else if kind < 88 {
            let t = target(r);
            let mut rd = vec![0, 1, 0, 2, 0, 80];
            rd.extend(w(&t));
            recs.push(Rec { owner: owner_cased, ty: 33, ttl, rdata: rd });
        } else if kind < 96 {
            let s: Vec<u8> = (0..r.gen_range(1..20)).map(|_| r.gen_range(b'a'..=b'z')).collect();
            let mut rd = vec![s.len() as u8];
            rd.extend(s);
            recs.push(Rec { owner: owner_cased, ty: 16, ttl, rdata: rd });
        } else {
            // unknown type, opaque RDATA
            let rd: Vec<u8> = (0..r.gen_range(0..12)).map(|_| r.gen()).collect();
            recs.push(Rec { owner: owner_cased, ty: 65280 + r.gen_range(0..3), ttl, rdata: rd });
        }
    }
    if o.chains {
        // chains c0 -> c1 -> ... -> c{k}; the end is data / nodata / nxdomain / out of zone / a delegation / a loop
        for (ci, k) in [r.gen_range(0..4usize), r.gen_range(4..11usize), r.gen_range(6..10usize)].iter().enumerate() {
            let nmx = |i: usize| sub(&format!("ch{}x{}", ci, i));
            for i in 0..*k {
                recs.push(Rec { owner: nmx(i), ty: 5, ttl: 120 + i as u32, rdata: w(&rand_case(r, &nmx(i + 1))) });
            }
            match r.gen_range(0..9) {
                0 => recs.push(Rec { owner: nmx(*k), ty: 1, ttl: 99, rdata: addr_rdata(r, class) }),
                1 => recs.push(Rec { owner: nmx(*k), ty: 16, ttl: 99, rdata: vec![1, b'x'] }),
                2 => {} // target does not exist
                3 => recs.push(Rec { owner: nmx(*k), ty: 5, ttl: 99, rdata: w("far.away.") }),
                4 => if let Some(c) = children.first() { recs.push(Rec { owner: nmx(*k), ty: 5, ttl: 99, rdata: w(&format!("x.{}", c)) }) },
                5 => { let j = r.gen_range(0..=*k); recs.push(Rec { owner: nmx(*k), ty: 5, ttl: 99, rdata: w(&nmx(j)) }) } // loop
                _ => {
                    // the chain ends at a name with MX, NS-like and SRV data whose targets are in the zone and have addresses:
                    // additional-section processing applies to the answer reached through the aliases as to a direct one
                    let tgt = sub(&format!("tgt{}", ci));
                    recs.push(Rec { owner: tgt.clone(), ty: 1, ttl: 98, rdata: addr_rdata(r, class) });
                    recs.push(Rec { owner: nmx(*k), ty: 15, ttl: 99, rdata: { let mut v = vec![0, 5]; v.extend(w(&tgt)); v } });
                    recs.push(Rec { owner: nmx(*k), ty: 33, ttl: 99, rdata: { let mut v = vec![0, 1, 0, 2, 0, 80]; v.extend(w(&tgt)); v } });
                }
            }
        }
        // wildcard CNAME
        if r.gen_bool(0.5) {
            recs.push(Rec { owner: sub("*.wc"), ty: 5, ttl: 77, rdata: w(&sub("ch0x0")) });
        }
    }
    if o.big {
        for k in 0..2u32 {
            let owner = owners.choose(r).unwrap().clone();
            if cname_owners.contains(&owner) || owner.starts_with("*.") { continue; }
            let cnt = r.gen_range(20..70);
            for i in 0..cnt {
                let rd = if class == 3 { let mut v = w("lan.chaos."); v.extend_from_slice(&[(i / 250) as u8, (i % 250) as u8]); v }
                         else { vec![198, 51, (i / 250) as u8, (i % 250) as u8] };
                recs.push(Rec { owner: owner.clone(), ty: 1, ttl: 777 + k, rdata: rd });
            }
            for i in 0..r.gen_range(0..4) {
                let s: Vec<u8> = (0..200).map(|_| b'a' + (i as u8)).collect();
                let mut rd = vec![200u8];
                rd.extend(s);
                recs.push(Rec { owner: owner.clone(), ty: 16, ttl: 778, rdata: rd });
            }
        }
        // a delegation to thirty out-of-zone name servers: the referral alone overflows 512 octets, and the last name
        // written into RDATA before the overflow shares no suffix with the QNAME
        for i in 0..30 {
            recs.push(Rec { owner: sub("manyns"), ty: 2, ttl: 901, rdata: w(&format!("ns{}.elsewhere.", i)) });
        }
        // an out-of-zone name server at the apex: its name is written in full (no suffix shared with the QNAME)
        recs.push(Rec { owner: apex.into(), ty: 2, ttl: 3600, rdata: w("ns.elsewhere.") });
        // ... and an out-of-zone mail exchanger: in an ANY answer it is the last name written into RDATA before the TXT
        // RRset overflows
        recs.push(Rec { owner: apex.into(), ty: 15, ttl: 3600, rdata: { let mut v = vec![0, 10]; v.extend(w("mail.elsewhere.")); v } });
        // fat TXT data at the apex: ANY / TXT at the apex overflows 512 octets after SOA and NS (names in RDATA) were written
        for i in 0..3u8 {
            let mut rd = vec![200u8];
            rd.extend(std::iter::repeat(b'k' + i).take(200));
            recs.push(Rec { owner: apex.into(), ty: 16, ttl: 778, rdata: rd });
        }
        // a fat delegation: many NS with in-bailiwick glue (A + AAAA), some siblings
        let del = sub("fat");
        for i in 0..r.gen_range(4..13) {
            let nsn = if r.gen_bool(0.8) { format!("ns{}.{}", i, del) } else { sub(&format!("sib{}", i)) };
            recs.push(Rec { owner: del.clone(), ty: 2, ttl: 900, rdata: w(&nsn) });
            recs.push(Rec { owner: nsn.clone(), ty: 1, ttl: 900, rdata: if class == 3 { addr_rdata(r, 3) } else { vec![203, 0, 113, i as u8] } });
            if class == 1 {
                recs.push(Rec { owner: nsn, ty: 28, ttl: 900, rdata: (0..16).map(|j| (i * 16 + j) as u8).collect() });
            }
        }
        // a delegation whose name server is the delegation owner itself, with many addresses at the cut (mandatory glue
        // that alone overflows 512 octets)
        let selfns = sub("selfns");
        recs.push(Rec { owner: selfns.clone(), ty: 2, ttl: 900, rdata: w(&selfns) });
        for i in 0..r.gen_range(2..40u8) {
            recs.push(Rec { owner: selfns.clone(), ty: 1, ttl: 900, rdata: if class == 3 { let mut v = w("lan.chaos."); v.extend_from_slice(&[0, i]); v } else { vec![203, 0, 114, i] } });
        }
        // a long name with data
        let long = sub(&format!("{}.{}.{}", "x".repeat(60), "y".repeat(60), "z".repeat(50)));
        if long.len() < 250 {
            for i in 0..r.gen_range(1..12u8) { recs.push(Rec { owner: long.clone(), ty: 1, ttl: 5, rdata: if class == 3 { addr_rdata(r, 3) } else { vec![10, 9, 8, i] } }); }
        }
    }
    if o.weird && class != 1 {
        // SRV-shaped and too short SRV RDATA outside class IN (there the type is opaque to the RDATA layer)
        let srv = sub("srv");
        recs.push(Rec { owner: srv.clone(), ty: 33, ttl: 42, rdata: (0..r.gen_range(0..6)).map(|_| r.gen()).collect() });
        if r.gen_bool(0.5) { recs.push(Rec { owner: srv, ty: 15, ttl: 42, rdata: vec![0] }); }
    }
    if o.weird {
        // malformed RDATA for known types (the zone API accepts any octets)
        for _ in 0..r.gen_range(0..4) {
            let owner = owners.choose(r).unwrap().clone();
            let ty = *[1u16, 2, 5, 6, 15, 16, 28, 33].choose(r).unwrap();
            let rd: Vec<u8> = (0..r.gen_range(0..9)).map(|_| *[0u8, 1, 3, 63, 64, 0xc0, b'a'].choose(r).unwrap()).collect();
            recs.push(Rec { owner, ty, ttl: 42, rdata: rd });
        }
    }
    recs
}

/// Adds the records through `HashMapTreeZone::add`; returns the zone and the JSON of accepted records.
pub fn build_zone(apex: &str, class: u16, recs: &[Rec], policy: GluePolicy) -> (HashMapTreeZone, Vec<Value>, Vec<String>) {
    let mut zone = HashMapTreeZone::new(nm(apex), Class::from(class), policy);
    let mut jrecs = Vec::new();
    let mut names = Vec::new();
    for rec in recs {
        let rd: &Rdata = rec.rdata.as_slice().try_into().unwrap();
        let owner = nm(&rec.owner);
        if zone.add(&owner, Type::from(rec.ty), Class::from(class), Ttl::from(rec.ttl), rd).is_ok() {
            jrecs.push(json!({"owner": w(&rec.owner), "type": rec.ty, "ttl": rec.ttl, "rdata": rec.rdata}));
            names.push(rec.owner.to_ascii_lowercase());
        }
    }
    (zone, jrecs, names)
}

pub struct GenCat {
    pub cat: Cat,
    pub cfg: Vec<Value>,
    pub names: Vec<String>,     // lower-case names worth querying
    pub classes: Vec<u16>,
}

/// A catalog of nested zones in up to three classes plus placeholder entries.
pub fn gen_catalog(r: &mut StdRng, o: ZoneOpts, multi_class: bool) -> GenCat {
    let mut cat = Cat::new();
    let mut cfg = Vec::new();
    let mut names: Vec<String> = vec!["test.".into(), "other.".into(), "x.pending.test.".into(), ".".into(), "pending.test.".into()];
    let mut plan: Vec<(String, u16, Vec<&str>)> = vec![("example.test.".into(), 1, vec!["del.example.test.", "c.b.example.test."])];
    if r.gen_bool(0.5) { plan.push(("del.example.test.".into(), 1, vec![])); }
    if multi_class {
        if r.gen_bool(0.6) { plan.push(("example.test.".into(), 3, vec!["del.example.test."])); }
        if r.gen_bool(0.4) { plan.push(("hs.test.".into(), 4, vec![])); }
        if r.gen_bool(0.3) { plan.push(("other.".into(), 65280, vec![])); }
        if r.gen_bool(0.15) { plan.push((".".into(), 1, vec!["test."])); }
    }
    let mut classes = vec![1u16];
    for (apex, class, children) in &plan {
        let recs = gen_zone(r, apex, *class, children, o);
        let policy = if r.gen_bool(0.5) { GluePolicy::Narrow } else { GluePolicy::Wide };
        let (zone, jrecs, ns) = build_zone(apex, *class, &recs, policy);
        names.extend(ns);
        cat.insert(Entry::Loaded(Arc::new(zone), ()));
        cfg.push(json!({"name": w(apex), "class": class, "state": "loaded", "records": jrecs}));
        if !classes.contains(class) { classes.push(*class); }
    }
    // placeholders
    let pend_class = if multi_class { *[1u16, 3].choose(r).unwrap() } else { 1 };
    cat.insert(Entry::NotYetLoaded(nm("pending.test."), Class::from(pend_class), ()));
    cfg.push(json!({"name": w("pending.test."), "class": pend_class, "state": "notloaded", "records": []}));
    // entries whose names contain the letters at the ends of the alphabet (queried in random case)
    if r.gen_bool(0.6) {
        cat.insert(Entry::NotYetLoaded(nm("zone.quiz.test."), Class::IN, ()));
        cfg.push(json!({"name": w("zone.quiz.test."), "class": 1, "state": "notloaded", "records": []}));
        cat.insert(Entry::FailedToLoad(nm("AZ.test."), Class::IN, ()));
        cfg.push(json!({"name": w("AZ.test."), "class": 1, "state": "failed", "records": []}));
        names.extend(["zone.quiz.test.", "quiz.test.", "x.zone.quiz.test.", "az.test.", "a.az.test."].iter().map(|s| s.to_string()));
    }
    if r.gen_bool(0.5) {
        cat.insert(Entry::FailedToLoad(nm("failed.example.test."), Class::IN, ()));
        cfg.push(json!({"name": w("failed.example.test."), "class": 1, "state": "failed", "records": []}));
        names.push("failed.example.test.".into());
        names.push("a.failed.example.test.".into());
    }
    names.sort();
    names.dedup();
    GenCat { cat, cfg, names, classes }
}
