//! Response-rate-limiting drivers (C26, C27, C28).
//!
//!   qv rrl time    <seed> <n> <out>   sessions with request-time histories: gaps from 0 to 10^9 s simulated by
//!                                     Server::verif_rrl_shift, real sub-second/second sleeps, random rates/windows/slip
//!   qv rrl streams <seed> <n> <out>   sessions under a limit of one response per stream: sources in and out of the
//!                                     configured prefixes, IPv4-mapped sources, QNAME case variants, wildcard hits,
//!                                     NXDOMAIN / REFUSED / SERVFAIL outcomes, TCP, non-QUERY opcodes
//!   qv rrl burst   <seed> <n> <out>   up to 16 OS threads issuing identical requests concurrently
//!
//! Every request is also answered by a second server without rate limiting (`direct`); the hook events the limiter
//! emits under the bucket lock are logged with the request. TLC judges (TraceRrl.tla).

use std::net::{IpAddr, Ipv4Addr, Ipv6Addr};
use std::panic::{catch_unwind, AssertUnwindSafe};
use std::sync::{Arc, Barrier, Mutex};
use std::time::{Duration, Instant};

use quandary::class::Class;
use quandary::db::catalog::Entry;
use quandary::db::zone::GluePolicy;
use quandary::db::{HashMapTreeCatalog, HashMapTreeZone};
use quandary::rr::{Ttl, Type};
use quandary::server::{ReceivedInfo, Response, RrlParams, Server, Transport};
use quandary::verif;
use rand::rngs::StdRng;
use rand::seq::SliceRandom;
use rand::{Rng, SeedableRng};
use serde_json::{json, Value};

use crate::common::*;

type Cat = HashMapTreeCatalog<HashMapTreeZone, ()>;

fn catalog() -> Arc<Cat> {
    let apex = nm("example.test.");
    let mut zone = HashMapTreeZone::new(apex.clone(), Class::IN, GluePolicy::Narrow);
    let mut soa = w("ns.example.test.");
    soa.extend(w("admin.example.test."));
    for v in [1u32, 2, 3, 4, 60] { soa.extend_from_slice(&v.to_be_bytes()); }
    zone.add(&apex, Type::SOA, Class::IN, Ttl::from(60), soa.as_slice().try_into().unwrap()).unwrap();
    zone.add(&apex, Type::NS, Class::IN, Ttl::from(60), w("ns.example.test.").as_slice().try_into().unwrap()).unwrap();
    // (a_b and a<DEL>b: two names that differ only in bit 5 of an octet that is not a letter - two streams)
    for (n, a) in [("www.example.test.", 4u8), ("ns.example.test.", 9), ("*.wild.example.test.", 5), ("*.w2.example.test.", 6), ("mail.example.test.", 7),
                   ("ab.c.example.test.", 14), ("a.bc.example.test.", 15), ("abc.example.test.", 16),
                   ("a_b.example.test.", 10), ("a\\127b.example.test.", 11), ("host1.example.test.", 12), ("host\\017.example.test.", 13)] {
        zone.add(&nm(n), Type::A, Class::IN, Ttl::from(60), (&[192u8, 0, 2, a][..]).try_into().unwrap()).unwrap();
    }
    // a wildcard whose TXT RRset does not fit a 512-octet response: the truncated answer still belongs to the wildcard's stream
    for c in [b'p', b'q', b'r', b's'] {
        let mut rd = vec![200u8];
        rd.extend(std::iter::repeat(c).take(200));
        zone.add(&nm("*.fat.example.test."), Type::TXT, Class::IN, Ttl::from(60), rd.as_slice().try_into().unwrap()).unwrap();
    }
    zone.add(&nm("txt.example.test."), Type::TXT, Class::IN, Ttl::from(60), (&[1u8, b'x'][..]).try_into().unwrap()).unwrap();
    let mut cat = Cat::new();
    cat.insert(Entry::Loaded(Arc::new(zone), ()));
    cat.insert(Entry::NotYetLoaded(nm("pending.test."), Class::IN, ()));
    Arc::new(cat)
}

/// (qname to send, stream name = lower-case QNAME or wildcard source of synthesis)
fn qpool() -> Vec<(&'static str, &'static str)> {
    vec![
        ("www.example.test.", "www.example.test."),
        ("WWW.Example.TEST.", "www.example.test."),
        ("a.wild.example.test.", "*.wild.example.test."),
        ("b.wild.example.test.", "*.wild.example.test."),
        ("x.y.wild.example.test.", "*.wild.example.test."),
        ("a.w2.example.test.", "*.w2.example.test."),
        ("a.fat.example.test.", "*.fat.example.test."),
        ("b.fat.example.test.", "*.fat.example.test."),
        ("ab.c.example.test.", "ab.c.example.test."),      // the same octets, split into labels differently: three streams
        ("a.bc.example.test.", "a.bc.example.test."),
        ("abc.example.test.", "abc.example.test."),
        ("a_b.example.test.", "a_b.example.test."),
        ("a\\127b.example.test.", "a\\127b.example.test."),
        ("host1.example.test.", "host1.example.test."),
        ("host\\017.example.test.", "host\\017.example.test."),
        ("txt.example.test.", "txt.example.test."),      // NODATA for type A: NOERROR
        ("mail.example.test.", "mail.example.test."),
        ("example.test.", "example.test."),
        ("nx1.example.test.", ""),                        // NXDOMAIN
        ("nx2.example.test.", ""),
        ("other.zone.", ""),                              // REFUSED
        ("a.pending.test.", ""),                          // SERVFAIL
    ]
}

fn sources() -> Vec<IpAddr> {
    vec![
        Ipv4Addr::new(10, 1, 2, 3).into(),
        Ipv4Addr::new(10, 1, 2, 99).into(),
        Ipv4Addr::new(10, 1, 3, 3).into(),
        Ipv4Addr::new(10, 9, 9, 9).into(),
        Ipv4Addr::new(11, 1, 2, 3).into(),
        "2001:db8:1:2::1".parse::<Ipv6Addr>().unwrap().into(),
        "2001:db8:1:2::ffff".parse::<Ipv6Addr>().unwrap().into(),
        "2001:db8:1:2ff::9".parse::<Ipv6Addr>().unwrap().into(),
        "2001:db8:9:2::1".parse::<Ipv6Addr>().unwrap().into(),
        "::ffff:10.1.2.3".parse::<Ipv6Addr>().unwrap().into(),      // IPv4-mapped: counts as 10.1.2.3
        "::ffff:10.1.2.77".parse::<Ipv6Addr>().unwrap().into(),
        "::fffe:10.1.2.3".parse::<Ipv6Addr>().unwrap().into(),      // not mapped
        // plain IPv6 addresses in ::/96 ("IPv4-compatible"): never an IPv4 stream
        "::1".parse::<Ipv6Addr>().unwrap().into(),
        "::2:0:0:1".parse::<Ipv6Addr>().unwrap().into(),
        "::10.1.2.3".parse::<Ipv6Addr>().unwrap().into(),
        "::10.1.2.99".parse::<Ipv6Addr>().unwrap().into(),
    ]
}

fn src_octets(src: IpAddr) -> Vec<u8> {
    match src {
        IpAddr::V4(a) => a.octets().to_vec(),
        IpAddr::V6(a) => a.octets().to_vec(),
    }
}

fn install_sink() -> Arc<Mutex<Vec<Value>>> {
    let log: Arc<Mutex<Vec<Value>>> = Arc::new(Mutex::new(Vec::new()));
    let log2 = log.clone();
    let jitter = Arc::new(Mutex::new(StdRng::seed_from_u64(99)));
    verif::set_sink(Some(Arc::new(move |ev: &verif::Event| {
        let mut rec = json!({"ev": ev.kind, "seq": ev.seq, "thr": ev.thread});
        for (k, v) in ev.fields { rec[*k] = json!(*v); }
        for (k, v) in ev.strs { rec[*k] = json!(v); }
        log2.lock().unwrap().push(rec);
        // perturb schedules while the bucket lock is held
        let y = jitter.lock().unwrap().gen_range(0..100);
        if y < 5 { std::thread::yield_now(); } else if y < 7 { std::thread::sleep(Duration::from_micros(50)); }
    })));
    log
}

pub fn main(args: &[String]) {
    silence_panics();
    if args[0] == "replay" {
        // qv rrl replay <histories> <out> <ticks-per-second> <rate> <window>: one session per TLC-generated history
        // of MC_Rrl (First(g) / Request(g): a gap of g ticks, then a request on the one stream)
        let text = std::fs::read_to_string(&args[1]).expect("cannot read histories");
        let mut out = Out::create(&args[2]);
        let k: u64 = args[3].parse().unwrap();
        let rate: u32 = args[4].parse().unwrap();
        let window: u32 = args[5].parse().unwrap();
        let cat = catalog();
        let log = install_sink();
        let mut r = StdRng::seed_from_u64(7);
        for line in text.lines().filter(|l| !l.trim().is_empty()) {
            let h: Vec<Value> = serde_json::from_str(line).expect("bad history line");
            let gaps: Vec<u64> = h.iter().map(|op| op.as_array().unwrap()[1].as_u64().unwrap()).collect();
            replay_session(&mut r, &cat, &log, &mut out, &gaps, k, rate, window);
        }
        verif::set_sink(None);
        eprintln!("{} records", out.finish());
        return;
    }
    let seed: u64 = args[1].parse().unwrap();
    let n: usize = args[2].parse().unwrap();
    let mut out = Out::create(&args[3]);
    let mut r = StdRng::seed_from_u64(seed);
    let cat = catalog();
    let log = install_sink();
    match args[0].as_str() {
        "time" => for _ in 0..n { session(&mut r, &cat, &log, &mut out, true); },
        "streams" => for _ in 0..n { session(&mut r, &cat, &log, &mut out, false); },
        "burst" => for _ in 0..n { burst(&mut r, &cat, &log, &mut out); },
        _ => panic!("unknown rrl mode"),
    }
    verif::set_sink(None);
    eprintln!("{} records", out.finish());
}

fn session(r: &mut StdRng, cat: &Arc<Cat>, log: &Arc<Mutex<Vec<Value>>>, out: &mut Out, time_profile: bool) {
    let rates: &[u32] = if time_profile { &[1, 2, 5, 100, 1000, 1_000_000] } else { &[1] };
    let (noerror, nxdomain, error) = (*rates.choose(r).unwrap(), *rates.choose(r).unwrap(), *rates.choose(r).unwrap());
    let maxrate = noerror.max(nxdomain).max(error);
    let window = if !time_profile { 1 } else if maxrate >= 1000 { *[1u32, 2].choose(r).unwrap() } else { *[1u32, 2, 5, 15].choose(r).unwrap() };
    let slip = *[0usize, 1, 2, 3].choose(r).unwrap();
    let size = if time_profile { *[7usize, 65537, 1].choose(r).unwrap() } else { *[65537usize, 65537, 65537, 7].choose(r).unwrap() };
    let p4 = *[0u8, 8, 24, 32, 23].choose(r).unwrap();
    let p6 = *[0u8, 48, 56, 64, 61].choose(r).unwrap();
    let mut params = RrlParams::new(noerror, nxdomain, error, window).unwrap();
    params.set_slip(slip);
    params.set_size(size).unwrap();
    params.set_ipv4_prefix_len(p4).unwrap();
    params.set_ipv6_prefix_len(p6).unwrap();
    let mut server = Server::new(cat.clone());
    server.set_rrl_params(Some(params));
    let plain = Server::new(cat.clone());
    out.emit(json!({"ev": "Reset", "noerror": noerror, "nxdomain": nxdomain, "error": error, "window": window, "slip": slip, "size": size, "p4": p4, "p6": p6}));
    let start = Instant::now();
    let srcs = sources();
    let qs = qpool();
    let single_stream = time_profile && r.gen_bool(0.6);
    let fixed_src = *srcs.choose(r).unwrap();
    let fixed_q = *qs.choose(r).unwrap();
    let steps = if time_profile { r.gen_range(5..70) } else { r.gen_range(10..60) };
    let mut total_shift: u64 = 0;
    for _ in 0..steps {
        if time_profile && r.gen_bool(0.25) {
            let d: u64 = *[1u64, 1, 2, 3, 7, 60, 3600, 86400, 31_536_000, 50_000_000, 500_000_000, 1_000_000_000].choose(r).unwrap();
            // the specification's clock stays below 2^31 seconds per session
            if total_shift + d <= 2_000_000_000 {
                total_shift += d;
                server.verif_rrl_shift(Duration::from_secs(d));
                out.emit(json!({"ev": "Shift", "secs": d, "micros": 0}));
            }
        }
        if time_profile && r.gen_bool(0.012) {
            std::thread::sleep(Duration::from_millis(r.gen_range(100..1200)));
        }
        let src = if single_stream { fixed_src } else { *srcs.choose(r).unwrap() };
        let (qn, stream) = if single_stream { fixed_q } else { *qs.choose(r).unwrap() };
        let transport = if r.gen_bool(0.93) { Transport::Udp } else { Transport::Tcp };
        let mut m = vec![r.gen::<u8>(), r.gen::<u8>(), if r.gen_bool(0.5) { 1 } else { 0 }, 0, 0, 1, 0, 0, 0, 0, 0, 0];
        if r.gen_bool(0.04) {
            m[2] |= *[1u8, 2, 4, 5, 15].choose(r).unwrap() << 3; // non-QUERY opcode: never limited
        }
        let qname = if single_stream && r.gen_bool(0.3) { rand_case(r, qn) } else { qn.to_string() };
        m.extend_from_slice(nm(&qname).wire_repr());
        // (under a wildcard: a quarter of the queries ask for ANY - the answer is synthesised from the same wildcard)
        let qtype: u16 = if qn.contains(".fat.") && r.gen_bool(0.75) { 16 } else if (qn.contains(".wild.") || qn.contains(".w2.")) && r.gen_bool(0.25) { 255 }
                         else if r.gen_bool(0.85) { 1 } else { *[16u16, 255, 28].choose(r).unwrap() };
        m.extend_from_slice(&qtype.to_be_bytes());
        m.extend_from_slice(&[0, 1]);
        if r.gen_bool(0.2) {
            // sometimes an unsupported EDNS version: the BADVERS response belongs to the error category
            let version: u32 = if r.gen_bool(0.25) { 1 } else { 0 };
            push_additional(&mut m, &opt_rr(1232, version << 16, &[0], &[]));
        }
        log.lock().unwrap().clear();
        let mut buf = vec![0xFFu8; 65535];
        let t0 = start.elapsed().as_micros() as u64;
        let res = catch_unwind(AssertUnwindSafe(|| server.handle_message(&m, ReceivedInfo::new(src, transport), &mut buf)));
        let t1 = start.elapsed().as_micros() as u64;
        let hook = log.lock().unwrap().clone();
        let mut rec = match res {
            Ok(Response::Single(n)) => json!({"out": "resp", "resp": buf[..n].to_vec()}),
            Ok(Response::None) => json!({"out": "none", "resp": []}),
            Err(_) => json!({"out": "panic", "resp": []}),
        };
        let mut buf2 = vec![0u8; 65535];
        let direct = match plain.handle_message(&m, ReceivedInfo::new(src, transport), &mut buf2) {
            Response::Single(n) => buf2[..n].to_vec(),
            Response::None => Vec::new(),
        };
        rec["ev"] = json!("Req");
        rec["req"] = json!(m);
        rec["t0"] = json!(t0);
        rec["t1"] = json!(t1);
        rec["transport"] = json!(tname(transport));
        rec["src"] = json!(src_octets(src));
        rec["direct"] = json!(direct);
        rec["stream"] = json!(if stream.is_empty() { Vec::new() } else { nm(stream).wire_repr().to_vec() });
        rec["hook"] = json!(hook);
        let panicked = rec["out"] == "panic";
        out.emit(rec);
        if panicked {
            break; // the bucket mutex is poisoned now: end the session
        }
    }
}

fn replay_session(r: &mut StdRng, cat: &Arc<Cat>, log: &Arc<Mutex<Vec<Value>>>, out: &mut Out, gaps: &[u64], k: u64, rate: u32, window: u32) {
    let slip = r.gen_range(0..2usize);
    let mut params = RrlParams::new(rate, rate, rate, window).unwrap();
    params.set_slip(slip);
    let mut server = Server::new(cat.clone());
    server.set_rrl_params(Some(params));
    let plain = Server::new(cat.clone());
    out.emit(json!({"ev": "Reset", "noerror": rate, "nxdomain": rate, "error": rate, "window": window, "slip": slip, "size": 65537, "p4": 24, "p6": 56}));
    let start = Instant::now();
    let src: IpAddr = Ipv4Addr::new(10, 1, 2, 3).into();
    for g in gaps {
        if *g > 0 {
            let micros = g * 1_000_000 / k;
            server.verif_rrl_shift(Duration::from_micros(micros));
            out.emit(json!({"ev": "Shift", "secs": micros / 1_000_000, "micros": micros % 1_000_000}));
        }
        let mut m = vec![r.gen::<u8>(), r.gen::<u8>(), 0, 0, 0, 1, 0, 0, 0, 0, 0, 0];
        m.extend_from_slice(&w("www.example.test."));
        m.extend_from_slice(&[0, 1, 0, 1]);
        log.lock().unwrap().clear();
        let mut buf = vec![0xFFu8; 65535];
        let t0 = start.elapsed().as_micros() as u64;
        let res = catch_unwind(AssertUnwindSafe(|| server.handle_message(&m, ReceivedInfo::new(src, Transport::Udp), &mut buf)));
        let t1 = start.elapsed().as_micros() as u64;
        let hook = log.lock().unwrap().clone();
        let mut rec = match res {
            Ok(Response::Single(n)) => json!({"out": "resp", "resp": buf[..n].to_vec()}),
            Ok(Response::None) => json!({"out": "none", "resp": []}),
            Err(_) => json!({"out": "panic", "resp": []}),
        };
        let mut buf2 = vec![0u8; 65535];
        let direct = match plain.handle_message(&m, ReceivedInfo::new(src, Transport::Udp), &mut buf2) {
            Response::Single(n) => buf2[..n].to_vec(),
            Response::None => Vec::new(),
        };
        rec["ev"] = json!("Req");
        rec["req"] = json!(m);
        rec["t0"] = json!(t0);
        rec["t1"] = json!(t1);
        rec["transport"] = json!("udp");
        rec["src"] = json!(src_octets(src));
        rec["direct"] = json!(direct);
        rec["stream"] = json!(w("www.example.test."));
        rec["hook"] = json!(hook);
        let panicked = rec["out"] == "panic";
        out.emit(rec);
        if panicked { break; }
    }
}

fn burst(r: &mut StdRng, cat: &Arc<Cat>, log: &Arc<Mutex<Vec<Value>>>, out: &mut Out) {
    let rate = *[1u32, 3, 10, 40].choose(r).unwrap();
    let window = *[1u32, 2, 5].choose(r).unwrap();
    let nthreads = r.gen_range(2..=16usize);
    // mostly short bursts (the first touches of a fresh stream race), sometimes long ones (the limit is reached under contention)
    let per = if r.gen_bool(0.7) { r.gen_range(1..8usize) } else { r.gen_range(8..60usize) };
    let yields = r.gen_bool(0.5);
    let mut params = RrlParams::new(rate, rate, rate, window).unwrap();
    params.set_slip(*[0usize, 1, 2].choose(r).unwrap());
    let mut server = Server::new(cat.clone());
    server.set_rrl_params(Some(params));
    // four bursts in ten hit a limiter whose buckets were all last touched two seconds ago (a server that has been
    // up for a while): the stream's own clock starts with its first response, not with the bucket's past
    let aged = r.gen_bool(0.4);
    if aged { server.verif_rrl_shift(Duration::from_secs(2)); }
    // a quarter of the bursts meet a stream that already exists and whose next refill has just come due: a few requests
    // from this thread first, then every bucket's last refill moved 1.2 s into the past; the burst's first request does the
    // one refill, under contention
    let primed = !aged && r.gen_bool(0.33);
    log.lock().unwrap().clear();
    let mut primed_n = 0usize;
    if primed {
        let mut m = vec![0, 99, 0, 0, 0, 1, 0, 0, 0, 0, 0, 0];
        m.extend_from_slice(&w("www.example.test."));
        m.extend_from_slice(&[0, 1, 0, 1]);
        let mut buf = vec![0xFFu8; 1232];
        primed_n = r.gen_range(1..=(rate * window) as usize + 2);
        for _ in 0..primed_n { let _ = server.handle_message(&m, ReceivedInfo::new(Ipv4Addr::new(10, 0, 0, 1).into(), Transport::Udp), &mut buf); }
        server.verif_rrl_shift(Duration::from_millis(1200));
    }
    let server = Arc::new(server);
    let barrier = Arc::new(Barrier::new(nthreads));
    let wall = Instant::now();
    // a spin gate after the barrier: the threads' first requests (the ones that create the stream's entry) start
    // within a few hundred nanoseconds of each other instead of in wake-up order
    let gate = Arc::new(std::sync::atomic::AtomicUsize::new(0));
    let totals = Arc::new(Mutex::new((0usize, 0usize, 0usize)));
    let handles: Vec<_> = (0..nthreads)
        .map(|t| {
            let (server, barrier, totals, gate) = (server.clone(), barrier.clone(), totals.clone(), gate.clone());
            std::thread::Builder::new()
                .name(format!("t{}", t))
                .spawn(move || {
                    let mut m = vec![0, t as u8, 0, 0, 0, 1, 0, 0, 0, 0, 0, 0];
                    m.extend_from_slice(&w("www.example.test."));
                    m.extend_from_slice(&[0, 1, 0, 1]);
                    let mut buf = vec![0u8; 1232];
                    barrier.wait();
                    gate.fetch_add(1, std::sync::atomic::Ordering::SeqCst);
                    let mut spins = 0u32;
                    while gate.load(std::sync::atomic::Ordering::SeqCst) < nthreads && spins < 50_000_000 { std::hint::spin_loop(); spins += 1; }
                    let (mut full, mut lim, mut panics) = (0, 0, 0);
                    for i in 0..per {
                        if yields && i % 3 == t % 3 { std::thread::yield_now(); }
                        match catch_unwind(AssertUnwindSafe(|| server.handle_message(&m, ReceivedInfo::new(Ipv4Addr::new(10, 0, 0, 1).into(), Transport::Udp), &mut buf))) {
                            Ok(Response::Single(_)) => if buf[2] & 2 != 0 { lim += 1 } else { full += 1 },
                            Ok(Response::None) => lim += 1,
                            Err(_) => panics += 1,
                        }
                    }
                    let mut s = totals.lock().unwrap();
                    s.0 += full;
                    s.1 += lim;
                    s.2 += panics;
                })
                .unwrap()
        })
        .collect();
    for h in handles { h.join().unwrap(); }
    let wall_ms = wall.elapsed().as_millis() as u64;
    let mut evs = log.lock().unwrap().clone();
    evs.sort_by_key(|e| e["seq"].as_u64().unwrap());
    let s = totals.lock().unwrap();
    out.emit(json!({"ev": "Burst", "rate": rate, "window": window, "threads": nthreads, "n": nthreads * per, "full": s.0, "limited": s.1, "panics": s.2, "aged": aged, "primed": primed_n, "wall_ms": wall_ms, "events": evs}));
}
