//! C11: library-level TSIG. Messages are built with the real Writer in request /
//! response / subsequent mode (also through templates); the MAC and the message are
//! logged. Then the message - as is, with the MAC truncated to a chosen length, or
//! with one bit flipped - is verified with verify_* at a chosen clock.
use std::panic::{catch_unwind, AssertUnwindSafe};

use quandary::class::Class;
use quandary::message::tsig::{Algorithm, PreparedTsigRr, ReadTsigRr, VerificationError};
use quandary::message::writer::{Hint, HintedName, TsigMode};
use quandary::message::{ExtendedRcode, Question, Reader, Writer};
use quandary::rr::rdata::TimeSigned;
use quandary::rr::{Rdata, Ttl, Type};
use rand::rngs::StdRng;
use rand::seq::SliceRandom;
use rand::{Rng, SeedableRng};
use serde_json::{json, Value};

use crate::common::*;

fn words(t: u64) -> Value {
    json!({"hi": (t >> 32) & 0xffff, "mid": (t >> 16) & 0xffff, "lo": t & 0xffff})
}

/// Parses `vm` the way a TSIG consumer would and calls the library's verify function.
fn verify(vm: &[u8], mode_i: usize, alg: Algorithm, key: &[u8], prior: &[u8], now: u64) -> String {
    catch_unwind(AssertUnwindSafe(|| -> String {
        let mut rd = match Reader::try_from(vm) { Ok(r) => r, Err(_) => return "unparsable".into() };
        if rd.qdcount() != 1 || rd.read_question().is_err() { return "unparsable".into(); }
        let total = rd.ancount() as usize + rd.nscount() as usize + rd.arcount() as usize;
        if total == 0 { return "unparsable".into(); }
        for _ in 0..total - 1 { if rd.skip_rr().is_err() { return "unparsable".into(); } }
        let upto = rd.message_to_cursor().len();
        let rr = match rd.read_rr() { Ok(rr) => rr, Err(_) => return "unparsable".into() };
        if !rd.at_eom() { return "unparsable".into(); }
        let t = match ReadTsigRr::try_from(rr) { Ok(t) => t, Err(_) => return "unparsable".into() };
        if t.algorithm() != alg.name() { return "unparsable".into(); }
        let now_ts = TimeSigned::try_from_unix_time(now).unwrap();
        let res = match mode_i {
            0 => t.verify_request(&vm[..upto], alg, key, now_ts),
            1 => t.verify_response(&vm[..upto], prior, alg, key, now_ts),
            _ => t.verify_subsequent(&vm[..upto], prior, alg, key, now_ts),
        };
        match res {
            Ok(()) => "ok".into(),
            Err(VerificationError::BadSig) => "badsig".into(),
            Err(VerificationError::BadTime) => "badtime".into(),
            Err(VerificationError::FormErr) => "formerr".into(),
        }
    })).unwrap_or_else(|_| "panic".into())
}

pub fn main(args: &[String]) {
    silence_panics();
    let seed: u64 = args[0].parse().unwrap();
    let n: usize = args[1].parse().unwrap();
    let sweep_every: usize = args[2].parse().unwrap(); // every k-th message gets a flip of every octet position
    let mut out = Out::create(&args[3]);
    let mut r = StdRng::seed_from_u64(seed);
    for it in 0..n {
        let alg = if r.gen_bool(0.5) { Algorithm::HmacSha1 } else { Algorithm::HmacSha256 };
        let algs = if alg == Algorithm::HmacSha1 { "sha1" } else { "sha256" };
        let outlen = if alg == Algorithm::HmacSha1 { 20 } else { 32 };
        let key: Vec<u8> = (0..r.gen_range(1..70)).map(|_| r.gen()).collect();
        let prior: Vec<u8> = (0..r.gen_range(0..40)).map(|_| r.gen()).collect();
        let mode_i = r.gen_range(0..3usize);
        let mk_mode = |m: usize| match m {
            0 => TsigMode::Request { algorithm: alg, key: key.clone().into() },
            1 => TsigMode::Response { algorithm: alg, request_mac: prior.clone().into(), key: key.clone().into() },
            _ => TsigMode::Subsequent { algorithm: alg, prior_mac: prior.clone().into(), key: key.clone().into() },
        };
        let ts: u64 = match r.gen_range(0..6) { 0 => r.gen_range(0..(1u64 << 48)), 1 => (1u64 << 32) - 1 + r.gen_range(0..3), 2 => r.gen_range(0..70000), _ => r.gen_range(0..(1u64 << 31)) };
        let fudge: u16 = *[0u16, 1, 300, 65535, 32768].choose(&mut r).unwrap();
        let error: u16 = *[0u16, 16, 17, 18].choose(&mut r).unwrap();
        let server_time: u64 = r.gen_range(0..(1u64 << 48));
        let key_name = *["k.", "Key.Example.", "a.b.c.d.e."].choose(&mut r).unwrap();
        let prep = PreparedTsigRr { key_name: nm(key_name).into(), time_signed: TimeSigned::try_from_unix_time(ts).unwrap(), fudge,
            original_id: r.gen(), error: ExtendedRcode::from(error), server_time: TimeSigned::try_from_unix_time(server_time).unwrap() };
        let mut buf = vec![0xFFu8; 2048];
        let q = Question { qname: nm("www.example.test."), qtype: Type::A.into(), qclass: Class::IN.into() };
        let n_an = r.gen_range(0..3);
        let edns = r.gen_bool(0.4);
        let id: u16 = r.gen();
        let qr = r.gen_bool(0.5);
        let via_template = mode_i == 2 && r.gen_bool(0.5);
        let an: Vec<[u8; 4]> = (0..n_an).map(|_| [1u8, 2, 3, r.gen()]).collect();
        let fill = |w: &mut Writer| {
            w.set_id(id);
            w.set_qr(qr);
            w.add_question(&q).unwrap();
            for a in &an { w.add_answer_rr(HintedName::new(Hint::Qname, &q.qname), Type::A, Class::IN, Ttl::from(60), <&Rdata>::try_from(&a[..]).unwrap(), None).unwrap(); }
            if edns { w.set_edns(1232).unwrap(); }
        };
        let (len, mac) = if via_template {
            // first message of a multi-message response as a template, then a subsequent message from it
            let mut tbuf = vec![0u8; 2048];
            let mut tw = Writer::try_from(&mut tbuf[..]).unwrap();
            tw.set_id(id);
            tw.set_qr(qr);
            tw.add_question(&q).unwrap();
            if edns { tw.set_edns(1232).unwrap(); }
            tw.set_tsig(mk_mode(1), prep.clone()).unwrap();
            let template = tw.into_template();
            let mut w = Writer::try_from_template_as_tsig_subsequent(&mut buf[..], &template, prior.clone().into()).unwrap();
            for a in &an { w.add_answer_rr(HintedName::new(Hint::Qname, &q.qname), Type::A, Class::IN, Ttl::from(60), <&Rdata>::try_from(&a[..]).unwrap(), None).unwrap(); }
            w.finish_with_mac()
        } else {
            let mut w = Writer::try_from(&mut buf[..]).unwrap();
            fill(&mut w);
            w.set_tsig(mk_mode(mode_i), prep.clone()).unwrap();
            w.finish_with_mac()
        };
        let msg = buf[..len].to_vec();
        let base = json!({"mode": mode_i, "alg": algs, "key": key, "prior": prior});
        let mut emit = |vm: Vec<u8>, kind: &str, now: u64, out: &mut Out| {
            let verdict = verify(&vm, mode_i, alg, &key, &prior, now);
            let mut rec = base.clone();
            rec["ev"] = json!("Tsig");
            rec["msg"] = json!(msg);
            rec["mac"] = json!(mac.as_ref().map(|m| m.to_vec()).unwrap_or_default());
            rec["vmsg"] = json!(vm);
            rec["kind"] = json!(kind);
            rec["now"] = words(now);
            rec["verdict"] = json!(verdict);
            out.emit(rec);
        };
        let nows = [ts.saturating_sub(fudge as u64), ts + fudge as u64, ts + fudge as u64 + 1, ts.saturating_sub(fudge as u64 + 1), ts];
        let now = (*nows.choose(&mut r).unwrap()).min((1u64 << 48) - 1);
        // (1) as produced
        emit(msg.clone(), "asis", now, &mut out);
        // (2) one random bit flipped
        {
            let mut vm = msg.clone();
            let i = r.gen_range(0..vm.len());
            vm[i] ^= 1 << r.gen_range(0..8);
            emit(vm, "flip", ts, &mut out);
        }
        // (3) MAC truncated to a chosen length (re-encode the TSIG RR; the MAC field is followed by 6 + otherlen octets)
        {
            let mac_len = outlen;
            let other_len = if error == 18 { 6 } else { 0 };
            let tail = 2 + 2 + 2 + other_len; // original id, error, other len, other
            let mac_start = msg.len() - tail - mac_len;
            let newlen = r.gen_range(0..=outlen + 1);
            if mac_start > 2 && u16::from_be_bytes([msg[mac_start - 2], msg[mac_start - 1]]) as usize == mac_len {
                let mut vm = msg[..mac_start - 2].to_vec();
                vm.extend_from_slice(&(newlen as u16).to_be_bytes());
                let mut m2 = msg[mac_start..mac_start + mac_len].to_vec();
                m2.resize(newlen, 0);
                vm.extend_from_slice(&m2);
                vm.extend_from_slice(&msg[mac_start + mac_len..]);
                // fix RDLENGTH: it sits right before the RDATA; RDATA = alg name + 10 + mac + tail
                let alg_len = if alg == Algorithm::HmacSha1 { 11 } else { 13 };
                let rdlen_pos = mac_start - 2 - 8 - alg_len - 2;
                let new_rdlen = (alg_len + 10 + newlen + tail) as u16;
                vm[rdlen_pos..rdlen_pos + 2].copy_from_slice(&new_rdlen.to_be_bytes());
                emit(vm, "trunc", ts, &mut out);
            }
        }
        // (4) sweep: every octet position flipped in turn
        if sweep_every > 0 && it % sweep_every == 0 {
            for i in 0..msg.len() {
                let mut vm = msg.clone();
                vm[i] ^= 1 << r.gen_range(0..8);
                emit(vm, "sweep", ts, &mut out);
            }
        }
    }
    eprintln!("tsiglib: {} records", out.finish());
}
