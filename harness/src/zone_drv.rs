//! Zone-store drivers (C06, C20, C21).
//!
//!   qv zone store  <seed> <n> <out>    one `Zone` record per random zone: the add history
//!                                      (result + store size after each add), the full iteration,
//!                                      apex soa()/ns(), validate() issues
//!   qv zone lookup <seed> <n> <out>    per random zone a `Cfg` record (accepted adds) followed by
//!                                      `Lk` records: lookup / lookup_addrs / lookup_all for every
//!                                      name within two labels of the zone's names x all options
//!
//! Nothing is judged here: TLC compares with ZoneStore.tla / Zone.tla.

use std::panic::{catch_unwind, AssertUnwindSafe};

use quandary::class::Class;
use quandary::db::zone::{
    GluePolicy, LookupAddrsResult, LookupAllResult, LookupOptions, LookupResult, SingleRrset, ValidationIssue,
};
use quandary::db::{HashMapTreeZone, Zone};
use quandary::name::Name;
use quandary::rr::{Rdata, Ttl, Type};
use rand::rngs::StdRng;
use rand::seq::SliceRandom;
use rand::{Rng, SeedableRng};
use serde_json::{json, Value};

use crate::common::*;
use crate::gen::{gen_zone, ZoneOpts};

pub fn main(args: &[String]) {
    let mode = args[0].as_str();
    let seed: u64 = args[1].parse().unwrap();
    let n: usize = args[2].parse().unwrap();
    let mut out = Out::create(&args[3]);
    let mut r = StdRng::seed_from_u64(seed);
    silence_panics();
    match mode {
        "store" => store(&mut r, n, &mut out),
        "lookup" => lookup(&mut r, n, &mut out),
        _ => panic!("unknown zone mode"),
    }
    let cnt = out.finish();
    eprintln!("{} records", cnt);
}

fn sub(l: &str, apex: &str) -> String {
    if apex == "." { format!("{}.", l) } else { format!("{}.{}", l, apex) }
}

fn wire(n: &Name) -> Vec<u8> {
    n.wire_repr().to_vec()
}

fn jrrset(s: &SingleRrset) -> Value {
    json!({"has": true, "ttl": u32::from(s.ttl), "rdatas": s.rdatas.iter().map(|d| d.octets().to_vec()).collect::<Vec<_>>()})
}

fn jopt(s: &Option<SingleRrset>) -> Value {
    match s {
        Some(s) => jrrset(s),
        None => json!({"has": false, "ttl": 0, "rdatas": []}),
    }
}

// ---------------------------------------------------------------- C20 / C21

struct Add {
    owner: String,
    ty: u16,
    class: u16,
    ttl: u32,
    rdata: Vec<u8>,
}

fn store_adds(r: &mut StdRng, apex: &str, class_v: u16) -> Vec<Add> {
    // (caf\233: a letter next to an octet that is not ASCII - case folding applies to the letters all the same)
    let labels = ["a", "b", "*", "ns", "mx", "del", "sib", "zq", "a-z_0", "*x", "**", "caf\\233", "d\\233l"];
    let mut owners: Vec<String> = vec![apex.to_string()];
    for _ in 0..r.gen_range(3..10) {
        let mut s = String::new();
        for _ in 0..r.gen_range(1..=3) {
            s.push_str(labels.choose(r).unwrap());
            s.push('.');
        }
        if apex != "." { s.push_str(apex); }
        owners.push(s);
    }
    // out-of-zone owners: unrelated, the parent, a sibling sharing a label prefix, a name that has the apex as a *prefix* of labels
    owners.push("outside.other.".into());
    if apex != "." {
        owners.push(apex.splitn(2, '.').nth(1).map(|p| if p.is_empty() { ".".to_string() } else { p.to_string() }).unwrap());
        owners.push(format!("x{}", apex));
        owners.push(format!("{}tail.", apex));
        if let Some(t) = tail_trick(apex) { owners.push(t); }
    }
    let mut adds = Vec::new();
    // four zones in ten: a delegation with another NS RRset below its cut (occluded), whose name server lies at or
    // below its own owner, each with or without addresses - the glue rules look at the referral, not just at names
    if r.gen_bool(0.4) {
        let del = sub("del", apex);
        let deep = format!("deep.{}", del);
        let upper_target = if r.gen_bool(0.5) { format!("ns.{}", del) } else { sub("ns", apex) };
        let lower_target = if r.gen_bool(0.7) { format!("ns.{}", deep) } else { deep.clone() };
        adds.push(Add { owner: del.clone(), ty: 2, class: class_v, ttl: 60, rdata: w(&upper_target) });
        adds.push(Add { owner: deep.clone(), ty: 2, class: class_v, ttl: 60, rdata: w(&lower_target) });
        let addr = |c: u16| if c == 3 { let mut v = w("ch."); v.extend_from_slice(&[0, 1]); v } else { vec![10, 0, 0, 9] };
        if r.gen_bool(0.5) { adds.push(Add { owner: upper_target.clone(), ty: 1, class: class_v, ttl: 60, rdata: addr(class_v) }); }
        if r.gen_bool(0.4) { adds.push(Add { owner: lower_target.clone(), ty: 1, class: class_v, ttl: 60, rdata: addr(class_v) }); }
        owners.push(del);
        owners.push(deep);
    }
    let nrec = r.gen_range(2..28);
    for _ in 0..nrec {
        let o0 = if r.gen_bool(0.25) { apex.to_string() } else { owners.choose(r).unwrap().clone() };
        let owner = rand_case(r, &o0);
        let t0 = owners.choose(r).unwrap().clone();
        let target = rand_case(r, &t0);
        let k = r.gen_range(0..100);
        let (ty, rd): (u16, Vec<u8>) = if k < 12 {
            // (the same SOA in another letter case is the same record, not a second SOA)
            let mut v = w(&rand_case(r, &sub("ns", apex)));
            v.extend(w(&rand_case(r, &sub("h", apex))));
            for x in [1u32, 2, 3, 4, r.gen_range(0..3)] { v.extend_from_slice(&x.to_be_bytes()); }
            (6, v)
        } else if k < 35 {
            // now and then preceded by the same name with an octet of junk after it (malformed RDATA the API accepts):
            // a different record, compared octet by octet, whichever of the two comes first
            if r.gen_bool(0.04) {
                let mut junk = w(&target); junk.push(r.gen_range(0..2));
                let first_junk = r.gen_bool(0.6);
                let o2 = owner.clone();
                let cls2: u16 = class_v;
                if first_junk { adds.push(Add { owner: o2, ty: 2, class: cls2, ttl: 60, rdata: junk }); }
                else { adds.push(Add { owner: o2.clone(), ty: 2, class: cls2, ttl: 60, rdata: w(&rand_case(r, &target)) }); adds.push(Add { owner: o2, ty: 2, class: cls2, ttl: 60, rdata: junk }); }
            }
            (2, w(&target))
        } else if k < 50 {
            (1, if class_v == 3 { let mut v = w("ch."); v.extend_from_slice(&[0, r.gen_range(1..3)]); v } else { vec![10, 0, 0, r.gen_range(1..4)] })
        } else if k < 58 {
            (28, vec![r.gen_range(0..3); 16])
        } else if k < 70 {
            (5, w(&target))
        } else if k < 85 {
            let mut v = vec![0, r.gen_range(0..3)];
            v.extend(w(&target));
            (15, v)
        } else if k < 88 {
            // SRV: in class IN the target compares case-insensitively, in any other class the RDATA is opaque
            let mut v = vec![0, 1, 0, 2, 0, r.gen_range(80..82)];
            v.extend(w(&target));
            (33, v)
        } else if k < 92 {
            (16, vec![1, *[b'x', b'X', b'y'].choose(r).unwrap()])
        } else {
            // unknown type; often with EMPTY RDATA (a two-octet entry in the RDATA set)
            (65280, if r.gen_bool(0.6) { vec![] } else { vec![r.gen_range(0..2)] })
        };
        let cls: u16 = if r.gen_bool(0.06) { *[2u16, 255, 254].choose(r).unwrap() } else { class_v };
        let ttl: u32 = *[60u32, 60, 60, 300, 0].choose(r).unwrap();
        // a second SRV at the same owner whose target differs only in letter case: one record in class IN, two elsewhere
        let twin = if ty == 33 && r.gen_bool(0.6) { let mut v = rd.clone(); for b in v[6..].iter_mut() { if b.is_ascii_alphabetic() { *b ^= 0x20; } } Some(v) } else { None };
        adds.push(Add { owner: owner.clone(), ty, class: cls, ttl, rdata: rd });
        if let Some(v) = twin { adds.push(Add { owner, ty, class: cls, ttl, rdata: v }); }
    }
    adds
}

fn store(r: &mut StdRng, n: usize, out: &mut Out) {
    for _ in 0..n {
        let apex = *["z.test.", "z.test.", "z.test.", ".", "a.b.z.test."].choose(r).unwrap();
        let class_v: u16 = *[1u16, 1, 1, 3, 4].choose(r).unwrap();
        let wide = r.gen_bool(0.5);
        let mut zone = HashMapTreeZone::new(nm(apex), Class::from(class_v), if wide { GluePolicy::Wide } else { GluePolicy::Narrow });
        let mut adds: Vec<Value> = Vec::new();
        for a in store_adds(r, apex, class_v) {
            let owner = nm(&a.owner);
            let rd: &Rdata = a.rdata.as_slice().try_into().unwrap();
            let res = catch_unwind(AssertUnwindSafe(|| zone.add(&owner, Type::from(a.ty), Class::from(a.class), Ttl::from(a.ttl), rd)));
            let res = match res {
                Ok(Ok(())) => "ok".to_string(),
                Ok(Err(e)) => format!("{:?}", e),
                Err(_) => "panic".to_string(),
            };
            adds.push(json!({"owner": wire(&owner), "type": a.ty, "class": a.class, "ttl": a.ttl, "rdata": a.rdata, "res": res,
                             "nrr": zone.iter_by_rrset().count(), "nnodes": zone.iter_by_node().count()}));
        }
        let mut nodes: Vec<Value> = Vec::new();
        for (name, rrsets) in zone.iter_by_node() {
            let rs: Vec<Value> = rrsets
                .map(|s| json!({"type": u16::from(s.rr_type), "ttl": u32::from(s.ttl), "rdatas": s.rdatas.iter().map(|d| d.octets().to_vec()).collect::<Vec<_>>()}))
                .collect();
            nodes.push(json!({"name": wire(name), "rrsets": rs}));
        }
        // iter_by_rrset must agree with iter_by_node: logged as (name, type) pairs
        let flat: Vec<Value> = zone.iter_by_rrset().map(|(name, s)| json!({"name": wire(name), "type": u16::from(s.rr_type), "n": s.rdatas.iter().count()})).collect();
        let nrr = flat.len();
        let val = match catch_unwind(AssertUnwindSafe(|| zone.validate())) {
            Ok(Ok(issues)) => {
                let v: Vec<Value> = issues
                    .iter()
                    .map(|i| {
                        let (k, nmw) = match i {
                            ValidationIssue::MissingApexSoa => ("MissingApexSoa", vec![0]),
                            ValidationIssue::TooManyApexSoas => ("TooManyApexSoas", vec![0]),
                            ValidationIssue::MissingApexNs => ("MissingApexNs", vec![0]),
                            ValidationIssue::MissingNsAddress(n) => ("MissingNsAddress", wire(n)),
                            ValidationIssue::MissingMxAddress(n) => ("MissingMxAddress", wire(n)),
                            ValidationIssue::MissingGlue(n) => ("MissingGlue", wire(n)),
                            ValidationIssue::DuplicateCname(n) => ("DuplicateCname", wire(n)),
                            ValidationIssue::OtherRecordsAtCname(n) => ("OtherRecordsAtCname", wire(n)),
                            ValidationIssue::NsAtWildcard(n) => ("NsAtWildcard", wire(n)),
                        };
                        json!({"k": k, "n": nmw, "err": i.is_error()})
                    })
                    .collect();
                json!({"ok": true, "issues": v})
            }
            Ok(Err(e)) => json!({"ok": false, "issues": [], "e": format!("{:?}", e)}),
            Err(_) => json!({"ok": false, "issues": [], "e": "panic"}),
        };
        out.emit(json!({"ev": "Zone", "apex": w(apex), "class": class_v, "wide": wide, "adds": adds, "nodes": nodes, "flat": flat, "nrr": nrr,
                        "soa": jopt(&zone.soa()), "ns": jopt(&zone.ns()), "val": val}));
    }
}

// ---------------------------------------------------------------- C06

/// Small-alphabet zone as in the property text: '*' labels, NS at various depths, CNAMEs, empty non-terminals.
fn small_zone(r: &mut StdRng, apex: &str, class: u16) -> Vec<Add> {
    // a label of 16+ octets (block-wise hashing / comparison code paths) besides the short ones
    let labels = ["a", "b", "*", "c", "a", "b", "*", "c", "a-label-of-more-than-sixteen-octets", "caf\\233"];
    let mut adds = Vec::new();
    let n = r.gen_range(0..40);
    for _ in 0..n {
        let depth = *[0usize, 1, 1, 2, 2, 2, 3, 3, 4].choose(r).unwrap();
        let mut s = String::new();
        for _ in 0..depth {
            s.push_str(labels.choose(r).unwrap());
            s.push('.');
        }
        let owner = if depth == 0 { apex.to_string() } else if apex == "." { s } else { format!("{}{}", s, apex) };
        let k = r.gen_range(0..100);
        let is_wild = owner.starts_with("*.");
        let tgt = format!("{}.{}", labels.choose(r).unwrap(), if apex == "." { "" } else { apex });
        let tgt = if tgt.ends_with("..") { tgt[..tgt.len() - 1].to_string() } else { tgt };
        let (ty, rd): (u16, Vec<u8>) = if k < 30 {
            (1, if class == 3 { let mut v = w("ch."); v.extend_from_slice(&[0, r.gen_range(1..4)]); v } else { vec![10, 0, 0, r.gen_range(1..5)] })
        } else if k < 45 && !is_wild {
            (2, w(&tgt)) // NS (not at a wildcard owner: RFC 4592 4.2 leaves that undefined)
        } else if k < 60 {
            (5, w(&tgt))
        } else if k < 70 {
            (28, vec![r.gen_range(0..3); 16])
        } else if k < 80 {
            (16, vec![1, b'a' + r.gen_range(0..3)])
        } else if k < 90 {
            let mut v = vec![0, r.gen_range(0..3)];
            v.extend(w(&tgt));
            (15, v)
        } else {
            (6, { let mut v = w(&tgt); v.extend(w(&tgt)); for x in [1u32, 2, 3, 4, 5] { v.extend_from_slice(&x.to_be_bytes()); } v })
        };
        adds.push(Add { owner: rand_case(r, &owner), ty, class, ttl: *[60u32, 300].choose(r).unwrap(), rdata: rd });
    }
    adds
}

fn nearby(names: &[String], apex: &str) -> Vec<String> {
    let labels = ["a", "b", "*", "c", "zz", "a-label-of-more-than-sixteen-octets", "caf\\233"];
    let mut q: Vec<String> = Vec::new();
    let mut base: Vec<String> = names.to_vec();
    base.push(apex.to_string());
    // every ancestor of every name down to the apex
    for n in names {
        let mut cur = n.as_str();
        while cur.len() > apex.len() {
            match cur.find('.') {
                Some(i) if i + 1 < cur.len() => { cur = &cur[i + 1..]; base.push(cur.to_string()); }
                _ => break,
            }
        }
    }
    base.sort();
    base.dedup();
    for n in &base {
        q.push(n.clone());
        if n.len() > 200 { continue; }
        for l1 in labels {
            let one = if n == "." { format!("{}.", l1) } else { format!("{}.{}", l1, n) };
            q.push(one.clone());
            for l2 in labels {
                q.push(format!("{}.{}", l2, one));
            }
        }
    }
    q.sort();
    q.dedup();
    q
}

fn jlookup(zone: &HashMapTreeZone, name: &Name, ty: u16, o: &LookupOptions) -> Value {
    let sos = |s: &Option<std::borrow::Cow<Name>>| -> Vec<u8> { s.as_ref().map(|n| wire(n)).unwrap_or_default() };
    match catch_unwind(AssertUnwindSafe(|| match zone.lookup(name, Type::from(ty), o.clone()) {
        LookupResult::Found(f) => json!({"kind": "found", "sos": sos(&f.source_of_synthesis), "rrset": jrrset(&f.data)}),
        LookupResult::Cname(c) => json!({"kind": "cname", "sos": sos(&c.source_of_synthesis), "rrset": jrrset(&c.rrset)}),
        LookupResult::Referral(rf) => json!({"kind": "referral", "cut": wire(&rf.child_zone), "rrset": jrrset(&rf.ns_rrset)}),
        LookupResult::NoRecords(nr) => json!({"kind": "norecords", "sos": sos(&nr.source_of_synthesis)}),
        LookupResult::NxDomain => json!({"kind": "nxdomain"}),
        LookupResult::WrongZone => json!({"kind": "wrongzone"}),
    })) {
        Ok(v) => v,
        Err(_) => json!({"kind": "panic"}),
    }
}

fn jaddrs(zone: &HashMapTreeZone, name: &Name, o: &LookupOptions) -> Value {
    let sos = |s: &Option<std::borrow::Cow<Name>>| -> Vec<u8> { s.as_ref().map(|n| wire(n)).unwrap_or_default() };
    match catch_unwind(AssertUnwindSafe(|| match zone.lookup_addrs(name, o.clone()) {
        LookupAddrsResult::Found(f) => json!({"kind": "found", "sos": sos(&f.source_of_synthesis), "a": jopt(&f.data.a_rrset), "aaaa": jopt(&f.data.aaaa_rrset)}),
        LookupAddrsResult::Cname(c) => json!({"kind": "cname", "sos": sos(&c.source_of_synthesis), "rrset": jrrset(&c.rrset)}),
        LookupAddrsResult::Referral(rf) => json!({"kind": "referral", "cut": wire(&rf.child_zone), "rrset": jrrset(&rf.ns_rrset)}),
        LookupAddrsResult::NxDomain => json!({"kind": "nxdomain"}),
        LookupAddrsResult::WrongZone => json!({"kind": "wrongzone"}),
    })) {
        Ok(v) => v,
        Err(_) => json!({"kind": "panic"}),
    }
}

fn jall(zone: &HashMapTreeZone, name: &Name, o: &LookupOptions) -> Value {
    let sos = |s: &Option<std::borrow::Cow<Name>>| -> Vec<u8> { s.as_ref().map(|n| wire(n)).unwrap_or_default() };
    match catch_unwind(AssertUnwindSafe(|| match zone.lookup_all(name, o.clone()) {
        LookupAllResult::Found(f) => {
            let rs: Vec<Value> = f.data.map(|s| json!({"type": u16::from(s.rr_type), "ttl": u32::from(s.ttl), "rdatas": s.rdatas.iter().map(|d| d.octets().to_vec()).collect::<Vec<_>>()})).collect();
            json!({"kind": "found", "sos": sos(&f.source_of_synthesis), "rrsets": rs})
        }
        LookupAllResult::Referral(rf) => json!({"kind": "referral", "cut": wire(&rf.child_zone), "rrset": jrrset(&rf.ns_rrset)}),
        LookupAllResult::NxDomain => json!({"kind": "nxdomain"}),
        LookupAllResult::WrongZone => json!({"kind": "wrongzone"}),
    })) {
        Ok(v) => v,
        Err(_) => json!({"kind": "panic"}),
    }
}

fn lookup(r: &mut StdRng, n: usize, out: &mut Out) {
    for zi in 0..n {
        let apex = *["z.test.", "z.test.", ".", "b.z.test."].choose(r).unwrap();
        let class: u16 = *[1u16, 1, 1, 3, 4].choose(r).unwrap();
        let adds: Vec<Add> = if zi % 3 == 2 {
            // the richer generator shared with the server drivers (delegations with glue, chains, long names)
            let o = ZoneOpts { big: false, weird: false, chains: r.gen_bool(0.3) };
            let child = sub("del", apex);
            gen_zone(r, apex, class, &[child.as_str()], o).into_iter().map(|x| Add { owner: x.owner, ty: x.ty, class, ttl: x.ttl, rdata: x.rdata }).collect()
        } else {
            small_zone(r, apex, class)
        };
        let mut zone = HashMapTreeZone::new(nm(apex), Class::from(class), GluePolicy::Narrow);
        let mut jrecs = Vec::new();
        let mut names: Vec<String> = Vec::new();
        for a in &adds {
            let rd: &Rdata = a.rdata.as_slice().try_into().unwrap();
            let owner = nm(&a.owner);
            if zone.add(&owner, Type::from(a.ty), Class::from(a.class), Ttl::from(a.ttl), rd).is_ok() {
                jrecs.push(json!({"owner": wire(&owner), "type": a.ty, "class": a.class, "ttl": a.ttl, "rdata": a.rdata}));
                names.push(a.owner.to_ascii_lowercase());
            }
        }
        out.emit(json!({"ev": "Cfg", "apex": w(apex), "class": class, "records": jrecs}));
        let mut qs = nearby(&names, apex);
        // names outside the zone (checked lookups only): unrelated, parent, sibling, apex as a label prefix
        let mut outside: Vec<String> = vec!["other.".into(), "a.other.".into()];
        if apex != "." {
            outside.push(apex.splitn(2, '.').nth(1).map(|p| if p.is_empty() { ".".to_string() } else { p.to_string() }).unwrap());
            outside.push(format!("x{}", apex));
            outside.push(format!("a.x{}", apex));
            if let Some(t) = tail_trick(apex) { outside.push(format!("a.{}", t)); outside.push(t); }
        }
        if qs.len() > 260 {
            qs.shuffle(r);
            qs.truncate(260);
        }
        let types = [1u16, 2, 5, 28, 16, 15, 6, 255, 99];
        for qn in &qs {
            let name = nm(&rand_case(r, qn));
            let sbc = r.gen_bool(0.5);
            if names.contains(qn) {
                // an owner name: every type once, so that found / cname / norecords are all frequent
                for ty in types {
                    let o = LookupOptions { unchecked: r.gen_bool(0.5), search_below_cuts: r.gen_bool(0.6) };
                    out.emit(json!({"ev": "Lk", "fn": "lookup", "name": wire(&name), "type": ty, "unchecked": o.unchecked, "sbc": o.search_below_cuts, "res": jlookup(&zone, &name, ty, &o)}));
                }
            }
            for (unchecked, sbc) in [(false, sbc), (true, !sbc), (r.gen_bool(0.5), r.gen_bool(0.5))] {
                let o = LookupOptions { unchecked, search_below_cuts: sbc };
                let which = r.gen_range(0..10);
                let (f, ty, res) = if which < 6 {
                    let ty = *types.choose(r).unwrap();
                    ("lookup", ty, jlookup(&zone, &name, ty, &o))
                } else if which < 8 {
                    ("addrs", 0, jaddrs(&zone, &name, &o))
                } else {
                    ("all", 0, jall(&zone, &name, &o))
                };
                out.emit(json!({"ev": "Lk", "fn": f, "name": wire(&name), "type": ty, "unchecked": unchecked, "sbc": sbc, "res": res}));
            }
        }
        // names that differ from an owner name only in bit 5 of octets that are not letters ('*' / LF, '-' / CR, ...):
        // other names, whatever a careless case fold makes of them
        for on in names.clone().iter().take(40) {
            let ow = wire(&nm(on));
            let vw = bit5_variant(r, &ow);
            if vw == ow { continue; }
            let name = name_of_wire(&vw);
            for (unchecked, sbc) in [(false, true), (true, false)] {
                let o = LookupOptions { unchecked, search_below_cuts: sbc };
                let ty = *types.choose(r).unwrap();
                out.emit(json!({"ev": "Lk", "fn": "lookup", "name": wire(&name), "type": ty, "unchecked": unchecked, "sbc": sbc, "res": jlookup(&zone, &name, ty, &o)}));
            }
        }
        for qn in &outside {
            let name = nm(&rand_case(r, qn));
            for sbc in [false, true] {
                let o = LookupOptions { unchecked: false, search_below_cuts: sbc };
                out.emit(json!({"ev": "Lk", "fn": "lookup", "name": wire(&name), "type": 1, "unchecked": false, "sbc": sbc, "res": jlookup(&zone, &name, 1, &o)}));
                out.emit(json!({"ev": "Lk", "fn": "addrs", "name": wire(&name), "type": 0, "unchecked": false, "sbc": sbc, "res": jaddrs(&zone, &name, &o)}));
                out.emit(json!({"ev": "Lk", "fn": "all", "name": wire(&name), "type": 0, "unchecked": false, "sbc": sbc, "res": jall(&zone, &name, &o)}));
            }
        }
    }
}
