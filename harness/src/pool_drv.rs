//! Worker-pool driver (C29): random pool scenarios on the real, unmodified thread.rs under a
//! perturbing event sink. Every hook event (emitted inside the critical section, with a global
//! sequence number) and every harness event is logged; TLC validates the log against the pool /
//! group state machine (TracePool.tla).
//!
//!   qv pool <seed> <nscenarios> <out>
//!
//! Scenario = 0-2 permanent workers, linger 0 or 4-20 ms, 1-6 tasks via submit / submit_or_spawn
//! from their own threads, shutdown at a random time or only after every accepted task has run
//! (so that shutdown's notify_all cannot mask a lost wake-up). The sink sometimes holds a submitter
//! inside the pool mutex for longer than the linger timeout: that realises the interleaving in which
//! a lingering worker's wait times out after the submitter counted it as available.

use std::sync::atomic::{AtomicBool, AtomicUsize, Ordering};
use std::sync::{Arc, Mutex};
use std::time::Duration;

use quandary::thread::ThreadGroup;
use quandary::verif;
use rand::rngs::StdRng;
use rand::{Rng, SeedableRng};
use serde_json::{json, Value};

use crate::common::*;

pub fn main(args: &[String]) {
    let seed: u64 = args[0].parse().unwrap();
    let nscen: usize = args[1].parse().unwrap();
    let mut out = Out::create(&args[2]);
    let mut rng = StdRng::seed_from_u64(seed);
    for scen in 0..nscen {
        if scenario(&mut rng, seed, scen, &mut out) {
            // a call into the pool never returned (HHang is in the trace): its threads cannot be joined, so the
            // trace written so far is all this process can deliver
            eprintln!("{} records (a scenario hung)", out.finish());
            std::process::exit(0);
        }
    }
    eprintln!("{} records", out.finish());
}

fn scenario(rng: &mut StdRng, seed: u64, scen: usize, out: &mut Out) -> bool {
    let mut hung = false;
    let nperm = rng.gen_range(0..=2usize);
    let linger_ms: u64 = if rng.gen_bool(0.7) { if rng.gen_bool(0.3) { rng.gen_range(1..4) } else { rng.gen_range(4..20) } } else { 0 };
    let ntasks = rng.gen_range(1..=7usize);
    // a quarter of the scenarios: every task goes through the blocking submit() and takes 0-2 ms, so that several
    // submitters are blocked on the pool when shutdown begins
    let blocking = nperm > 0 && rng.gen_bool(0.25);
    let busy_us: u64 = if blocking || rng.gen_bool(0.3) { rng.gen_range(200..2000) } else { 0 };
    // 1 = submit_or_spawn, 0 = submit (blocks for a worker: only meaningful with permanent workers or lingering ones)
    let kinds: Vec<u8> = (0..ntasks).map(|_| if blocking { 0 } else if nperm == 0 || rng.gen_bool(0.6) { 1 } else { 0 }).collect();
    let hold_prob = if rng.gen_bool(0.6) { 0.5 } else { 0.0 };
    let jitter = rng.gen_bool(0.7);
    let wait_all_ran = rng.gen_bool(0.5);

    let log: Arc<Mutex<Vec<Value>>> = Arc::new(Mutex::new(Vec::new()));
    let log2 = log.clone();
    let sink_rng = Arc::new(Mutex::new(StdRng::seed_from_u64(seed.wrapping_mul(1000).wrapping_add(scen as u64))));
    let linger = linger_ms;
    verif::set_sink(Some(Arc::new(move |ev: &verif::Event| {
        let mut rec = json!({"ev": ev.kind, "seq": ev.seq, "thr": ev.thread});
        for (k, v) in ev.fields { rec[*k] = json!(*v); }
        log2.lock().unwrap().push(rec);
        let (hold, nap) = {
            let mut r = sink_rng.lock().unwrap();
            (r.gen_bool(hold_prob), if jitter && r.gen_bool(0.3) { r.gen_range(0..300u64) } else { 0 })
        };
        if ev.kind == "SosLocked" && linger > 0 && hold {
            // hold the pool mutex across a linger timeout
            std::thread::sleep(Duration::from_millis(linger * 3));
        } else if nap > 0 {
            std::thread::sleep(Duration::from_micros(nap));
        }
    })));

    let pool_name = format!("p{}", scen);
    verif::emit("HCfg", &[("nperm", nperm as i64), ("linger", linger_ms as i64)]);
    let group = ThreadGroup::new();
    let pool = group.start_pool(Some(pool_name.clone()), nperm, Duration::from_millis(linger_ms)).unwrap();

    let accepted = Arc::new(AtomicUsize::new(0));
    let ran = Arc::new(AtomicUsize::new(0));
    let returned = Arc::new(AtomicUsize::new(0));
    let mut handles = Vec::new();
    for (i, kind) in kinds.iter().enumerate() {
        let pool = pool.clone();
        let kind = *kind;
        let id = i as i64 + 1;
        let delay = if blocking { rng.gen_range(0..400) } else { rng.gen_range(0..(linger_ms.max(2) * 2000)) };
        let (accepted, ran, returned) = (accepted.clone(), ran.clone(), returned.clone());
        handles.push(
            std::thread::Builder::new()
                .name(format!("sub-{}", id))
                .spawn(move || {
                    std::thread::sleep(Duration::from_micros(delay));
                    verif::emit("HCallStart", &[("task", id), ("kind", kind as i64)]);
                    let ran2 = ran.clone();
                    let task = move || {
                        verif::emit("HRan", &[("task", id)]);
                        if busy_us > 0 { std::thread::sleep(Duration::from_micros(busy_us)); }
                        ran2.fetch_add(1, Ordering::SeqCst);
                    };
                    let res = if kind == 1 { pool.submit_or_spawn(task) } else { pool.submit(task) };
                    if res.is_ok() { accepted.fetch_add(1, Ordering::SeqCst); }
                    verif::emit("HCallRet", &[("task", id), ("ok", res.is_ok() as i64)]);
                    returned.fetch_add(1, Ordering::SeqCst);
                })
                .unwrap(),
        );
    }
    let mut hang = false;
    if wait_all_ran {
        // shut down only after every submission has returned and every accepted task has run (watchdog 20 s).
        // A blocking submit with no worker ever becoming available cannot return: then shutdown is what releases it.
        let mut waited = 0;
        loop {
            let all_returned = returned.load(Ordering::SeqCst) == ntasks;
            if all_returned && ran.load(Ordering::SeqCst) >= accepted.load(Ordering::SeqCst) {
                verif::emit("HAllRan", &[]);
                break;
            }
            if waited >= 20000 {
                if all_returned { hang = true; }
                break;
            }
            std::thread::sleep(Duration::from_millis(1));
            waited += 1;
        }
    } else {
        std::thread::sleep(Duration::from_micros(if blocking { rng.gen_range(200..3000) } else { rng.gen_range(0..(linger_ms.max(2) * 4000)) }));
    }
    if hang {
        verif::emit("HHang", &[]);
    }
    verif::emit("HShutDownCall", &[]);
    // shut_down() itself may block (lock-order inversions): call it from its own thread under a watchdog
    let sd_done = Arc::new(AtomicBool::new(false));
    {
        let (g, d) = (group.clone(), sd_done.clone());
        std::thread::Builder::new().name("shutdowner".into()).spawn(move || { g.shut_down(); d.store(true, Ordering::SeqCst); }).unwrap();
    }
    let mut waited = 0;
    while !sd_done.load(Ordering::SeqCst) && waited < 20000 {
        std::thread::sleep(Duration::from_millis(1));
        waited += 1;
    }
    if !sd_done.load(Ordering::SeqCst) {
        verif::emit("HHang", &[]);
        hung = true;
    }
    let done = Arc::new(AtomicBool::new(false));
    let done2 = done.clone();
    let g2 = group.clone();
    let waiter = std::thread::Builder::new()
        .name("awaiter".into())
        .spawn(move || {
            g2.await_shutdown();
            done2.store(true, Ordering::SeqCst);
        })
        .unwrap();
    // submitters return once shutdown has begun at the latest
    let mut waited = 0;
    while returned.load(Ordering::SeqCst) < ntasks && waited < 20000 {
        std::thread::sleep(Duration::from_millis(1));
        waited += 1;
    }
    if returned.load(Ordering::SeqCst) == ntasks {
        for h in handles { h.join().unwrap(); }
    } else {
        verif::emit("HHang", &[]);
        hung = true;
    }
    let mut waited = 0;
    while !done.load(Ordering::SeqCst) && waited < 20000 {
        std::thread::sleep(Duration::from_millis(1));
        waited += 1;
    }
    if done.load(Ordering::SeqCst) {
        waiter.join().unwrap();
    } else {
        verif::emit("HHang", &[]);
        hung = true;
    }
    verif::emit("HEnd", &[]);
    verif::set_sink(None);
    let mut evs = log.lock().unwrap().clone();
    evs.sort_by_key(|e| e["seq"].as_u64().unwrap());
    out.emit(json!({"ev": "Reset", "pool": pool_name, "nperm": nperm, "linger": linger_ms, "kinds": kinds, "wait_all_ran": wait_all_ran, "thr": "main"}));
    for e in evs {
        out.emit(e);
    }
    hung
}
