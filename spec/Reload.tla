---- MODULE Reload ----
(* What the daemon serves after a reload (bin/quandaryd/zones.rs load_impl, run.rs SIGHUP handling).

   Declarative side (C31): after a reload every configured zone is served from its newly loaded data
   if its file loaded and validated, from its previously served data if that failed, and is a
   SERVFAIL placeholder if it has never loaded; zones no longer configured are gone; a zone's
   failure never changes what any other zone serves (`Expected`).
   Implementation side (`NewCat`): the configured zones are processed in configuration order; each
   looks up its previous entry in the old catalog and inserts one entry into the new catalog. The
   unrepaired code found the previous entry by longest match ("as_found"): a failing child zone then
   re-inserted its parent's old entry (under the parent's name) and got no entry of its own; the
   repaired code uses the exact name ("fixed").
   Zones are sequences of labels, top-down (<<"test", "p">> = p.test.). *)
EXTENDS Naturals, Sequences, FiniteSets

IsPrefix(a, b) == Len(a) <= Len(b) /\ SubSeq(b, 1, Len(a)) = a
Fail == [k |-> "servfail", v |-> 0]
Data(v) == [k |-> "data", v |-> v]
NoneZ == <<"none">>

Longest(c, z) == LET cands == {y \in DOMAIN c : IsPrefix(y, z)} IN
                 IF cands = {} THEN NoneZ ELSE CHOOSE y \in cands : \A x \in cands : Len(x) <= Len(y)
Prev(c, z, variant) == IF variant = "fixed" THEN (IF z \in DOMAIN c THEN z ELSE NoneZ) ELSE Longest(c, z)
Ins(c, key, e) == [x \in DOMAIN c \cup {key} |-> IF x = key THEN e ELSE c[x]]

\* load_impl: order = configured zones in configuration order; valid = [zone -> version] for files that load and validate
RECURSIVE Build(_, _, _, _, _, _)
Build(old, order, i, valid, new, variant) ==
  IF i > Len(order) THEN new
  ELSE LET z == order[i]
           p == Prev(old, z, variant) IN
       IF z \in DOMAIN valid THEN Build(old, order, i + 1, valid, Ins(new, z, Data(valid[z])), variant)
       ELSE IF p # NoneZ THEN Build(old, order, i + 1, valid, Ins(new, p, old[p]), variant)      \* the old entry, keyed by ITS name
       ELSE Build(old, order, i + 1, valid, Ins(new, z, Fail), variant)
NewCat(old, order, valid, variant) == Build(old, order, 1, valid, [z \in {} |-> Fail], variant)

\* the statement of C31
Expected(old, config, valid) ==
  [z \in config |-> IF z \in DOMAIN valid THEN Data(valid[z])
                    ELSE IF z \in DOMAIN old /\ old[z].k = "data" THEN old[z] ELSE Fail]

\* which entry answers a query for name q (longest match), or NoneZ
Serving(c, q) == Longest(c, q)
====
