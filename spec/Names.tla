---- MODULE Names ----
(* Domain names (RFC 1035 3.1, 4.1.4; RFC 4034 6.1): wire decoding with
   compression, skipping, uncompressed parsing, text form, equality, order.
   A name is a sequence of labels, leaf first, root label omitted; a label is
   a sequence of octets. Shaped after name/wire.rs, name/mod.rs, name/label.rs. *)
EXTENDS Bytes

LowerName(n) == [i \in 1..Len(n) |-> LowerSeq(n[i])]

\* ---------------------------------------------------------------- compressed names
\* compressed name at offset off of buf; pointers must point before the start of the current chunk
RECURSIVE DecN(_, _, _, _, _, _, _)
DecN(buf, idx, chunkStart, labels, wlen, first, firstSet) ==
  IF idx >= Len(buf) THEN [ok |-> FALSE]
  ELSE LET len == At(buf, idx) IN
    IF len >= 192 THEN
       IF idx + 1 >= Len(buf) THEN [ok |-> FALSE]
       ELSE LET ptr == (len - 192) * 256 + At(buf, idx + 1)
                f == IF firstSet THEN first ELSE idx + 2 - chunkStart IN
            IF ptr >= chunkStart THEN [ok |-> FALSE]
            ELSE DecN(buf, ptr, ptr, labels, wlen, f, TRUE)
    ELSE IF len > 63 THEN [ok |-> FALSE]
    ELSE IF len = 0 THEN
        IF wlen + 1 > 255 THEN [ok |-> FALSE]
        ELSE [ok |-> TRUE, name |-> labels,
              first |-> IF firstSet THEN first ELSE idx + 1 - chunkStart]
    ELSE IF idx + len + 1 >= Len(buf) THEN [ok |-> FALSE]
    ELSE IF wlen + len + 1 > 255 THEN [ok |-> FALSE]
    ELSE DecN(buf, idx + len + 1, chunkStart,
              Append(labels, SubSeq(buf, idx + 2, idx + 1 + len)), wlen + len + 1, first, firstSet)
DecodeName(buf, off) == DecN(buf, off, off, <<>>, 0, 0, FALSE)

\* uncompressed wire name occupying a whole octet string (as stored in zone data)
ParseName(w) == LET d == DecodeName(w, 0) IN IF d.ok /\ d.first = Len(w) THEN d ELSE [ok |-> FALSE]
\* uncompressed name at the start of w (rest ignored)
ParseNamePrefix(w) == DecodeName(w, 0)

WireOfLabel(l) == <<Len(l)>> \o l
WireOf(n) == Flatten([i \in 1..Len(n) |-> WireOfLabel(n[i])]) \o <<0>>

Suffix(n, k) == SubSeq(n, Len(n) - k + 1, Len(n))
IsSuffix(z, n) == Len(z) <= Len(n) /\ Suffix(n, Len(z)) = z


\* ---------------------------------------------------------------- skipping (name/wire.rs skip_compressed_name,
\* what Reader::skip_rr / peek_rr accept): length of the first chunk, or 0 for failure.
\* The second octet of a pointer is not required to be inside the buffer.
RECURSIVE Chunk(_, _, _)
Chunk(req, c, off) ==
  IF c + off >= Len(req) THEN 0
  ELSE LET l == At(req, c + off) IN
    IF l >= 192 THEN (IF off + 1 > 255 THEN 0 ELSE off + 2)
    ELSE IF l > 63 THEN 0
    ELSE IF l = 0 THEN (IF off + 1 > 255 THEN 0 ELSE off + 1)
    ELSE IF off + 1 + l > 255 THEN 0
    ELSE Chunk(req, c, off + 1 + l)

\* ---------------------------------------------------------------- uncompressed names
\* uncompressed name at offset off of w (no pointers): [ok, name, len]
RECURSIVE UncAt(_, _, _, _)
UncAt(w, start, off, labels) ==
  IF off >= Len(w) THEN [ok |-> FALSE]
  ELSE LET l == At(w, off) IN
    IF l > 63 THEN [ok |-> FALSE]
    ELSE IF l = 0 THEN (IF off + 1 - start > 255 THEN [ok |-> FALSE] ELSE [ok |-> TRUE, name |-> labels, len |-> off + 1 - start])
    ELSE IF off + 1 + l - start > 255 \/ off + 1 + l > Len(w) THEN [ok |-> FALSE]
    ELSE UncAt(w, start, off + 1 + l, Append(labels, SubSeq(w, off + 2, off + 1 + l)))
Unc(w, off) == UncAt(w, off, off, <<>>)

\* ---------------------------------------------------------------- text form (name/label.rs Display, name/mod.rs FromStr)
Digits(n) == <<48 + (n \div 100), 48 + ((n \div 10) % 10), 48 + (n % 10)>>
RenderOctet(o) == IF o = 46 THEN <<92, 46>> ELSE IF o = 92 THEN <<92, 92>> ELSE IF o >= 33 /\ o <= 126 THEN <<o>> ELSE <<92>> \o Digits(o)
RenderLabel(lab) == Flatten([i \in 1..Len(lab) |-> RenderOctet(lab[i])])
Render(n) == IF n = <<>> THEN <<46>> ELSE Flatten([i \in 1..Len(n) |-> RenderLabel(n[i]) \o <<46>>])

IsDigit(c) == c >= 48 /\ c <= 57
\* parse text t from position i (1-based) with finished labels ls, current label cur, wire length so far wl
RECURSIVE PT(_, _, _, _, _)
PT(t, i, ls, cur, wl) ==
  IF i > Len(t) THEN (IF cur = <<>> /\ ls # <<>> THEN [ok |-> TRUE, name |-> ls] ELSE [ok |-> FALSE])
  ELSE LET c == t[i] IN
    IF c = 92 THEN
       IF i + 1 > Len(t) THEN [ok |-> FALSE]
       ELSE IF IsDigit(t[i + 1]) THEN
          IF i + 3 > Len(t) \/ ~IsDigit(t[i + 2]) \/ ~IsDigit(t[i + 3]) THEN [ok |-> FALSE]
          ELSE LET v == (t[i + 1] - 48) * 100 + (t[i + 2] - 48) * 10 + (t[i + 3] - 48) IN
               IF v > 255 \/ Len(cur) >= 63 \/ wl + 1 >= 255 THEN [ok |-> FALSE] ELSE PT(t, i + 4, ls, Append(cur, v), wl + 1)
       ELSE IF Len(cur) >= 63 \/ wl + 1 >= 255 THEN [ok |-> FALSE] ELSE PT(t, i + 2, ls, Append(cur, t[i + 1]), wl + 1)
    ELSE IF c = 46 THEN
       IF cur = <<>> THEN [ok |-> FALSE]
       ELSE IF wl + 1 > 255 THEN [ok |-> FALSE]
       ELSE PT(t, i + 1, Append(ls, cur), <<>>, wl + 1)
    ELSE IF c >= 128 THEN [ok |-> FALSE]
    ELSE IF Len(cur) >= 63 \/ wl + 1 >= 255 THEN [ok |-> FALSE] ELSE PT(t, i + 1, ls, Append(cur, c), wl + 1)
\* wl counts octets of the wire form written so far, starting at 1 for the first length octet
ParseText(t) == IF t = <<>> THEN [ok |-> FALSE] ELSE IF t = <<46>> THEN [ok |-> TRUE, name |-> <<>>] ELSE PT(t, 1, <<>>, <<>>, 1)

\* ---------------------------------------------------------------- equality and RFC 4034 6.1 canonical order
NameEq(a, b) == LowerName(a) = LowerName(b)
RECURSIVE CmpSeq(_, _, _)
CmpSeq(a, b, i) ==   \* lexicographic on lower-cased octets, shorter first
  IF i > Len(a) /\ i > Len(b) THEN 0 ELSE IF i > Len(a) THEN -1 ELSE IF i > Len(b) THEN 1
  ELSE IF Lower(a[i]) < Lower(b[i]) THEN -1 ELSE IF Lower(a[i]) > Lower(b[i]) THEN 1 ELSE CmpSeq(a, b, i + 1)
RECURSIVE CmpName(_, _, _)
CmpName(a, b, k) ==  \* compare labels from the right; k = how many labels from the right already equal
  IF k >= Len(a) /\ k >= Len(b) THEN 0 ELSE IF k >= Len(a) THEN -1 ELSE IF k >= Len(b) THEN 1
  ELSE LET c == CmpSeq(a[Len(a) - k], b[Len(b) - k], 1) IN IF c # 0 THEN c ELSE CmpName(a, b, k + 1)
====
