---- MODULE NameBuilder ----
(* name/builder.rs: the NameBuilder as a state machine over its public operations (C16: "text parsing accepts
   exactly the absolute names of at most 255 octets with labels of at most 63 octets" rests on its length checks;
   the zone-file name parser and FromStr drive it, and it is public API in its own right).

   State: the labels finished so far (`done`, each non-empty) and the octets of the current label (`cur`).
   The builder's buffer holds one length octet per label, the current one included, so its fill is
        Fill = SUM (1 + Len(l)) over done  +  1 + Len(cur)
   and the name is fully qualified exactly when the current label is empty (it is then the terminating null label).
   MaxWire / MaxLabel are 255 / 63 in the code; the model checker uses small values.

   Every operation either succeeds or returns an error and - as its documentation promises - leaves the state
   unchanged. Variant "next_label_mutates_on_error" is a realistic slip (the label is closed before the check
   that there is room for the next length octet); it must violate FinishedValid (MC_NameBuilder_mutant.cfg). *)
EXTENDS Naturals, Sequences
CONSTANTS MaxWire, MaxLabel, Variant

RECURSIVE SumLens(_)
SumLens(ls) == IF ls = <<>> THEN 0 ELSE 1 + Len(Head(ls)) + SumLens(Tail(ls))
Fill(s) == SumLens(s.done) + 1 + Len(s.cur)
New == [done |-> <<>>, cur |-> <<>>, broken |-> FALSE]
\* broken: only the mutant sets it (a closed label without the next length octet)
FullyQualified(s) == s.cur = <<>>

RECURSIVE Flat(_)
Flat(ls) == IF ls = <<>> THEN <<>> ELSE <<Len(Head(ls))>> \o Head(ls) \o Flat(Tail(ls))
WireOfLabels(ls) == Flat(ls) \o <<0>>

\* each operation: [st (the state afterwards), res ("ok" or the error), name (wire form; only for a successful finish)]
Push(s, octets) ==
  IF Len(s.cur) + Len(octets) > MaxLabel THEN [st |-> s, res |-> "LabelTooLong"]
  ELSE IF Fill(s) + Len(octets) > MaxWire THEN [st |-> s, res |-> "NameTooLong"]
  ELSE [st |-> [s EXCEPT !.cur = @ \o octets], res |-> "ok"]

NextLabel(s) ==
  IF FullyQualified(s) THEN [st |-> s, res |-> "NullNonTerminal"]
  ELSE IF Fill(s) >= MaxWire THEN
       [st |-> IF Variant = "next_label_mutates_on_error" THEN [done |-> Append(s.done, s.cur), cur |-> <<>>, broken |-> TRUE] ELSE s,
        res |-> "NameTooLong"]
  ELSE [st |-> [s EXCEPT !.done = Append(@, s.cur), !.cur = <<>>], res |-> "ok"]

Finish(s) ==
  IF ~FullyQualified(s) THEN [st |-> s, res |-> "NonNullTerminal"]
  ELSE [st |-> s, res |-> "ok", name |-> IF s.broken THEN Flat(s.done) ELSE WireOfLabels(s.done)]

\* suffix = labels of an absolute name (without the null label)
FinishWithSuffix(s, suffix) ==
  IF FullyQualified(s) THEN [st |-> s, res |-> "NullNonTerminal"]
  ELSE IF Fill(s) + SumLens(suffix) + 1 > MaxWire THEN [st |-> s, res |-> "NameTooLong"]
  ELSE [st |-> s, res |-> "ok", name |-> WireOfLabels(Append(s.done, s.cur) \o suffix)]

\* a wire form is a valid absolute name
RECURSIVE ValidFrom(_, _)
ValidFrom(w, i) ==
  IF i > Len(w) THEN FALSE
  ELSE IF w[i] = 0 THEN i = Len(w)
  ELSE w[i] <= MaxLabel /\ i + w[i] < Len(w) /\ ValidFrom(w, i + w[i] + 1)
ValidName(w) == Len(w) >= 1 /\ Len(w) <= MaxWire /\ ValidFrom(w, 1)
====
