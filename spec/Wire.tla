---- MODULE Wire ----
(* RFC 1035 section 4 message decoder, written from the RFC and deliberately not
   shaped after message/reader.rs: it is the independent decoder every response
   octet string is judged with. Embedded names of the compressible types are
   decompressed and lower-cased (canonical RDATA), owners are lower-cased. *)
EXTENDS Rdata

RECURSIVE DecRRsG(_, _, _, _, _)
DecRRsG(buf, cur, n, acc, lc) ==
  IF n = 0 THEN [ok |-> TRUE, rrs |-> acc, cursor |-> cur]
  ELSE LET o == DecodeName(buf, cur) IN
    IF ~o.ok THEN [ok |-> FALSE]
    ELSE LET e == cur + o.first IN
      IF e + 10 > Len(buf) THEN [ok |-> FALSE]
      ELSE LET rdl == U16(buf, e + 8) IN
        IF e + 10 + rdl > Len(buf) THEN [ok |-> FALSE]
        ELSE LET ty == U16(buf, e)
                 rd == CanonMsgRdataGC(buf, e + 10, rdl, ty, U16(buf, e + 2), lc) IN
          IF rd = <<999>> THEN [ok |-> FALSE]
          ELSE DecRRsG(buf, e + 10 + rdl, n - 1,
                 Append(acc, [owner |-> LN(lc, o.name), type |-> ty, class |-> U16(buf, e + 2),
                              ttlhi |-> U16(buf, e + 4), ttllo |-> U16(buf, e + 6), rdata |-> rd]), lc)

DecRRs(buf, cur, n, acc) == DecRRsG(buf, cur, n, acc, TRUE)

DecodeMessage(buf) ==
  IF Len(buf) < 12 THEN [ok |-> FALSE]
  ELSE LET qd == U16(buf, 4)
           q == IF qd = 1 THEN DecodeName(buf, 12) ELSE [ok |-> TRUE, first |-> 0, name |-> <<>>]
       IN
    IF qd > 1 \/ ~q.ok \/ (qd = 1 /\ 12 + q.first + 4 > Len(buf)) THEN [ok |-> FALSE]
    ELSE LET c0 == IF qd = 1 THEN 12 + q.first + 4 ELSE 12
             an == DecRRs(buf, c0, U16(buf, 6), <<>>) IN
      IF ~an.ok THEN [ok |-> FALSE]
      ELSE LET ns == DecRRs(buf, an.cursor, U16(buf, 8), <<>>) IN
        IF ~ns.ok THEN [ok |-> FALSE]
        ELSE LET ar == DecRRs(buf, ns.cursor, U16(buf, 10), <<>>) IN
          IF ~ar.ok \/ ar.cursor # Len(buf) THEN [ok |-> FALSE]
          ELSE [ok |-> TRUE,
                id |-> U16(buf, 0), flags |-> U16(buf, 2), qd |-> qd,
                qsec |-> SubSeq(buf, 13, c0),
                qname |-> q.name,
                qtype |-> IF qd = 1 THEN U16(buf, 12 + q.first) ELSE 0,
                qclass |-> IF qd = 1 THEN U16(buf, 12 + q.first + 2) ELSE 0,
                an |-> an.rrs, ns |-> ns.rrs, ar |-> ar.rrs]


\* general form: any number of questions
RECURSIVE DecQsG(_, _, _, _, _)
DecQsG(buf, cur, n, acc, lc) ==
  IF n = 0 THEN [ok |-> TRUE, qs |-> acc, cursor |-> cur]
  ELSE LET q == DecodeName(buf, cur) IN
    IF ~q.ok \/ cur + q.first + 4 > Len(buf) THEN [ok |-> FALSE]
    ELSE DecQsG(buf, cur + q.first + 4, n - 1,
               Append(acc, [name |-> LN(lc, q.name), qtype |-> U16(buf, cur + q.first), qclass |-> U16(buf, cur + q.first + 2)]), lc)

DecodeMessageG(buf, lc) ==
  IF Len(buf) < 12 THEN [ok |-> FALSE]
  ELSE LET q == DecQsG(buf, 12, U16(buf, 4), <<>>, lc) IN
    IF ~q.ok THEN [ok |-> FALSE]
    ELSE LET an == DecRRsG(buf, q.cursor, U16(buf, 6), <<>>, lc) IN
      IF ~an.ok THEN [ok |-> FALSE]
      ELSE LET ns == DecRRsG(buf, an.cursor, U16(buf, 8), <<>>, lc) IN
        IF ~ns.ok THEN [ok |-> FALSE]
        ELSE LET ar == DecRRsG(buf, ns.cursor, U16(buf, 10), <<>>, lc) IN
          IF ~ar.ok \/ ar.cursor # Len(buf) THEN [ok |-> FALSE]
          ELSE [ok |-> TRUE, id |-> U16(buf, 0), flags |-> U16(buf, 2), qs |-> q.qs,
                an |-> an.rrs, ns |-> ns.rrs, ar |-> ar.rrs]
DecodeMessageN(buf) == DecodeMessageG(buf, TRUE)
====
