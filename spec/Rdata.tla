---- MODULE Rdata ----
(* RDATA per type: validity (RFC 1035 3.3, RFC 3596, RFC 2782, RFC 6891, RFC 8945),
   reading from a message with decompression, canonical form, equality (RFC 3597
   section 6: caseless embedded names for the pre-3597 name-bearing types) and RRset
   de-duplication. Shaped after rr/rdata/{mod,helpers,std13,srv,ipv6,opt,tsig}.rs
   and rr/rdata_set.rs. *)
EXTENDS Names

NameTypes == {2, 3, 4, 5, 7, 8, 9, 12}      \* NS MD MF CNAME MB MG MR PTR
\* decompress + lowercase embedded names of the types whose names may be compressed / compare caselessly
LN(lc, n) == IF lc THEN LowerName(n) ELSE n
\* lc = TRUE: embedded names lower-cased (canonical form); FALSE: case kept
\* (SRV has its RFC 2782 layout only in class IN; in any other class type 33 is opaque, RFC 3597)
CanonMsgRdataGC(buf, start, rdlen, type, class, lc) ==
  LET raw == SubSeq(buf, start + 1, start + rdlen)
      lim == SubSeq(buf, 1, start + rdlen) IN
  IF type \in NameTypes THEN
     LET d == DecodeName(lim, start) IN
     IF d.ok /\ d.first = rdlen THEN WireOf(LN(lc, d.name)) ELSE <<999>>
  ELSE IF type = 15 THEN
     IF rdlen < 3 THEN <<999>> ELSE
     LET d == DecodeName(lim, start + 2) IN
     IF d.ok /\ d.first = rdlen - 2 THEN SubSeq(raw, 1, 2) \o WireOf(LN(lc, d.name)) ELSE <<999>>
  ELSE IF type = 33 /\ class = 1 THEN
     IF rdlen < 7 THEN <<999>> ELSE
     LET d == DecodeName(lim, start + 6) IN
     IF d.ok /\ d.first = rdlen - 6 THEN SubSeq(raw, 1, 6) \o WireOf(LN(lc, d.name)) ELSE <<999>>
  ELSE IF type = 6 THEN
     LET m == DecodeName(lim, start) IN
     IF ~m.ok THEN <<999>> ELSE
     LET r == DecodeName(lim, start + m.first) IN
     IF ~r.ok \/ m.first + r.first + 20 # rdlen THEN <<999>>
     ELSE WireOf(LN(lc, m.name)) \o WireOf(LN(lc, r.name)) \o SubSeq(raw, m.first + r.first + 1, rdlen)
  ELSE raw
\* without a class: class IN (the callers that compare two values canonicalised the same way need no more)
CanonMsgRdataG(buf, start, rdlen, type, lc) == CanonMsgRdataGC(buf, start, rdlen, type, 1, lc)
CanonMsgRdata(buf, start, rdlen, type) == CanonMsgRdataG(buf, start, rdlen, type, TRUE)
CanonRdata(type, rd) == CanonMsgRdata(rd, 0, Len(rd), type)
CanonRdataC(class, type, rd) == CanonMsgRdataGC(rd, 0, Len(rd), type, class, TRUE)

RECURSIVE CharStrings(_, _, _)
CharStrings(w, off, n) ==     \* n = number parsed so far; returns count if the strings fill w exactly, else -1 encoded as 999
  IF off = Len(w) THEN n
  ELSE IF off + 1 + At(w, off) > Len(w) THEN 999
  ELSE CharStrings(w, off + 1 + At(w, off), n + 1)
RECURSIVE OptsOk(_, _)
OptsOk(w, off) == IF off = Len(w) THEN TRUE ELSE IF off + 4 > Len(w) THEN FALSE ELSE off + 4 + U16(w, off + 2) <= Len(w) /\ OptsOk(w, off + 4 + U16(w, off + 2))

Valid(class, type, w) ==
  IF type \in NameTypes THEN LET n == Unc(w, 0) IN n.ok /\ n.len = Len(w)
  ELSE IF type = 1 /\ class = 1 THEN Len(w) = 4
  ELSE IF type = 1 /\ class = 3 THEN LET n == Unc(w, 0) IN n.ok /\ n.len + 2 = Len(w)
  ELSE IF type = 6 THEN LET m == Unc(w, 0) IN m.ok /\ (LET r == Unc(w, m.len) IN r.ok /\ m.len + r.len + 20 = Len(w))
  ELSE IF type = 11 /\ class = 1 THEN Len(w) >= 5
  ELSE IF type = 13 THEN CharStrings(w, 0, 0) = 2
  ELSE IF type = 14 THEN LET m == Unc(w, 0) IN m.ok /\ (LET r == Unc(w, m.len) IN r.ok /\ m.len + r.len = Len(w))
  ELSE IF type = 15 THEN Len(w) >= 2 /\ (LET n == Unc(w, 2) IN n.ok /\ n.len + 2 = Len(w))
  ELSE IF type = 16 THEN Len(w) > 0 /\ CharStrings(w, 0, 0) # 999
  ELSE IF type = 28 /\ class = 1 THEN Len(w) = 16
  ELSE IF type = 33 /\ class = 1 THEN Len(w) >= 6 /\ (LET n == Unc(w, 6) IN n.ok /\ n.len + 6 = Len(w))
  ELSE IF type = 41 THEN OptsOk(w, 0)
  ELSE IF type = 250 THEN
     LET a == Unc(w, 0) IN a.ok /\ a.len + 10 <= Len(w) /\
       (LET ms == U16(w, a.len + 8) IN a.len + ms + 16 <= Len(w) /\ a.len + ms + U16(w, a.len + ms + 14) + 16 = Len(w))
  ELSE TRUE

\* reading: names of the "well-known" types are decompressed (case preserved), everything else validated in place
Read(class, type, msg, cursor, rdlen) ==
  IF cursor + rdlen > Len(msg) THEN [ok |-> FALSE]
  ELSE LET lim == SubSeq(msg, 1, cursor + rdlen)
           raw == SubSeq(msg, cursor + 1, cursor + rdlen)
           N(off) == IF off >= Len(lim) THEN [ok |-> FALSE] ELSE DecodeName(lim, off) IN
    IF type \in NameTypes THEN LET d == N(cursor) IN IF d.ok /\ d.first = rdlen THEN [ok |-> TRUE, rd |-> WireOf(d.name)] ELSE [ok |-> FALSE]
    ELSE IF type = 1 /\ class = 3 THEN LET d == N(cursor) IN IF d.ok /\ d.first + 2 = rdlen THEN [ok |-> TRUE, rd |-> WireOf(d.name) \o SubSeq(raw, d.first + 1, rdlen)] ELSE [ok |-> FALSE]
    ELSE IF type = 6 THEN LET m == N(cursor) IN
         IF ~m.ok THEN [ok |-> FALSE] ELSE LET r == N(cursor + m.first) IN
         IF r.ok /\ m.first + r.first + 20 = rdlen THEN [ok |-> TRUE, rd |-> WireOf(m.name) \o WireOf(r.name) \o SubSeq(raw, m.first + r.first + 1, rdlen)] ELSE [ok |-> FALSE]
    ELSE IF type = 14 THEN LET m == N(cursor) IN
         IF ~m.ok THEN [ok |-> FALSE] ELSE LET r == N(cursor + m.first) IN
         IF r.ok /\ m.first + r.first = rdlen THEN [ok |-> TRUE, rd |-> WireOf(m.name) \o WireOf(r.name)] ELSE [ok |-> FALSE]
    ELSE IF type = 15 THEN IF rdlen < 2 THEN [ok |-> FALSE] ELSE LET d == N(cursor + 2) IN
         IF d.ok /\ d.first + 2 = rdlen THEN [ok |-> TRUE, rd |-> SubSeq(raw, 1, 2) \o WireOf(d.name)] ELSE [ok |-> FALSE]
    ELSE IF type = 33 /\ class = 1 THEN IF rdlen < 6 THEN [ok |-> FALSE] ELSE LET d == N(cursor + 6) IN
         IF d.ok /\ d.first + 6 = rdlen THEN [ok |-> TRUE, rd |-> SubSeq(raw, 1, 6) \o WireOf(d.name)] ELSE [ok |-> FALSE]
    ELSE IF Valid(class, type, raw) THEN [ok |-> TRUE, rd |-> raw] ELSE [ok |-> FALSE]

\* equality (C19): field-wise with caseless names when both are well formed, octet equality otherwise
NameBearing(class, type) == type \in NameTypes \cup {6, 14, 15} \/ (type = 1 /\ class = 3) \/ (type = 33 /\ class = 1)
Canon(class, type, w) ==          \* lower-case the embedded names of a valid RDATA
  IF type \in NameTypes THEN WireOf(LowerName(Unc(w, 0).name))
  ELSE IF type = 1 /\ class = 3 THEN LET n == Unc(w, 0) IN WireOf(LowerName(n.name)) \o SubSeq(w, n.len + 1, Len(w))
  ELSE IF type = 6 THEN LET m == Unc(w, 0)  r == Unc(w, m.len) IN WireOf(LowerName(m.name)) \o WireOf(LowerName(r.name)) \o SubSeq(w, m.len + r.len + 1, Len(w))
  ELSE IF type = 14 THEN LET m == Unc(w, 0)  r == Unc(w, m.len) IN WireOf(LowerName(m.name)) \o WireOf(LowerName(r.name))
  ELSE IF type = 15 THEN SubSeq(w, 1, 2) \o WireOf(LowerName(Unc(w, 2).name))
  ELSE SubSeq(w, 1, 6) \o WireOf(LowerName(Unc(w, 6).name))
Equal(class, type, a, b) ==
  IF NameBearing(class, type) /\ Valid(class, type, a) /\ Valid(class, type, b) THEN Canon(class, type, a) = Canon(class, type, b) ELSE a = b

RECURSIVE Dedup(_, _, _, _)
Dedup(class, type, seq, acc) ==
  IF seq = <<>> THEN acc
  ELSE LET x == Head(seq) IN
       IF \E i \in 1..Len(acc) : Equal(class, type, x, acc[i]) THEN Dedup(class, type, Tail(seq), acc)
       ELSE Dedup(class, type, Tail(seq), Append(acc, x))
====
