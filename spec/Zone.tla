---- MODULE Zone ----
(* Declarative zone lookup (RFC 1034 4.3.2, RFC 4592): existence incl. empty
   non-terminals, topmost zone cut, closest encloser, source of synthesis.
   zone == [apex |-> lowercase name, state, class, recs |-> sequence of
            [owner |-> lowercase name, type, ttl, rdata (canonical), raw (as stored)]] *)
EXTENDS Wire

Nodes(z) == {z.apex} \cup UNION {{Suffix(z.recs[i].owner, k) : k \in Len(z.apex)..Len(z.recs[i].owner)} : i \in 1..Len(z.recs)}
RRsetAt(z, n, t) == SelectSeq(z.recs, LAMBDA r : r.owner = n /\ r.type = t)
TypesAt(z, n) == {z.recs[i].type : i \in {j \in 1..Len(z.recs) : z.recs[j].owner = n}}

\* declarative base lookup; name is lowercase and (for checked lookups) within the zone
LookupBase(z, name, sbc) ==
  LET N == Nodes(z)
      anc == {Suffix(name, k) : k \in Len(z.apex)..Len(name)}
      cuts == {a \in anc : a # z.apex /\ a \in N /\ 2 \in TypesAt(z, a)}
      ce == CHOOSE a \in anc \cap N : \A b \in anc \cap N : Len(b) <= Len(a)
      wild == <<<<42>>>> \o ce
  IN IF ~sbc /\ cuts # {} THEN
        [kind |-> "referral", cut |-> CHOOSE a \in cuts : \A b \in cuts : Len(a) <= Len(b)]
     ELSE IF name \in N THEN [kind |-> "node", node |-> name]
     ELSE IF wild \in N THEN [kind |-> "node", node |-> wild]
     ELSE [kind |-> "nxdomain"]

LookupChecked(z, name, sbc) ==
  IF ~IsSuffix(z.apex, name) THEN [kind |-> "wrongzone"] ELSE LookupBase(z, name, sbc)

\* ---------------------------------------------------------------- catalog (longest suffix within the class)
CatLookup(cat, name, class) ==
  LET cands == {i \in 1..Len(cat) : cat[i].class = class /\ IsSuffix(cat[i].apex, name)} IN
  IF cands = {} THEN 0
  ELSE CHOOSE i \in cands : \A j \in cands : Len(cat[j].apex) <= Len(cat[i].apex)
====
