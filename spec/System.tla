---- MODULE System ----
(* The daemon as one machine: the composition the other modules are parts of.

     operator edits zone files and the configuration      (EditFile, EditConfig)
     SIGHUP -> the reloader reads configuration and files zone by zone (one LoadZone step per
               configured zone: files may change between two of those steps), builds the new
               catalog with Reload!Build's rule and installs it with ONE atomic swap (Install)
     handlers (I/O provider workers) take one snapshot of the installed catalog per request
               (Snapshot) and answer from it (Respond) - Catalog/Server/Resolve abstracted to
               Reload!Serving: which entry answers and with which version

   What the composition adds to the per-module properties:
     Linearizable  - every response is what SOME catalog installed between the request's begin and
                     its snapshot prescribes (a response never mixes catalogs, never comes from a
                     catalog that was never installed, e.g. a half-built one);
     ReloadAtomic  - the installed catalog only ever changes to a complete result of a reload;
     Fresh         - a request that begins after an Install returns is answered from that catalog or
                     a later one;
     PerZone       - every installed catalog is Reload!Expected of the previously installed one, the
                     configuration read at SIGHUP and the file states read by the LoadZone steps.
   Bound to the code by TraceReload (C31: daemon histories), TraceSnapshot (C32: windows) and TraceIo
   (C30): this module is the design-level statement that those pieces fit together. *)
EXTENDS Reload, TLC
CONSTANTS Zones,        \* set of zone names (top-down label sequences)
          MaxVersion,   \* bound on file versions / reloads
          Clients,      \* handler identities
          Variant       \* "impl": one snapshot per request; "mutant": the zone is chosen from the snapshot but its
                        \* data is read from whatever is installed when the response is written (sensitivity control)
VARIABLES files,        \* [Zones -> 0..MaxVersion]: 0 = missing / invalid, v > 0 = valid content of version v
          config,       \* sequence of distinct zones (configuration order)
          installed,    \* the catalog handlers see
          history,      \* sequence of all catalogs ever installed (history[Len] = installed)
          rl,           \* reloader: [pc, order, i, valid, old]
          cl,           \* [Clients -> [pc, q, snap, began]]
          edits
vars == <<files, config, installed, history, rl, cl, edits>>

EmptyCat == [z \in {} |-> Fail]
Perms(S) == {s \in [1..Cardinality(S) -> S] : \A i, j \in 1..Cardinality(S) : i # j => s[i] # s[j]}
Idle == [pc |-> "idle", order |-> <<>>, i |-> 0, valid |-> [z \in {} |-> 0], old |-> EmptyCat]

Init == /\ files = [z \in Zones |-> 0] /\ config = <<>> /\ installed = EmptyCat /\ history = <<EmptyCat>>
        /\ rl = Idle /\ cl = [c \in Clients |-> [pc |-> "idle", q |-> <<>>, snap |-> 0, began |-> 0, resp |-> <<>>]] /\ edits = 0

EditFile(z, v) == /\ edits < MaxVersion /\ files' = [files EXCEPT ![z] = v] /\ edits' = edits + 1
                  /\ UNCHANGED <<config, installed, history, rl, cl>>
EditConfig(order) == /\ edits < MaxVersion /\ config' = order /\ edits' = edits + 1
                     /\ UNCHANGED <<files, installed, history, rl, cl>>
\* SIGHUP: the configuration is read once, the previous catalog is the installed one
Sighup == /\ rl.pc = "idle" /\ Len(history) <= MaxVersion
          /\ rl' = [pc |-> "loading", order |-> config, i |-> 1, valid |-> [z \in {} |-> 0], old |-> installed]
          /\ UNCHANGED <<files, config, installed, history, cl, edits>>
\* one zone file is read (whatever it contains at that moment)
LoadZone == /\ rl.pc = "loading" /\ rl.i <= Len(rl.order)
            /\ LET z == rl.order[rl.i] IN
               rl' = [rl EXCEPT !.i = @ + 1,
                                !.valid = IF files[z] > 0 THEN [x \in DOMAIN rl.valid \cup {z} |-> IF x = z THEN files[z] ELSE rl.valid[x]] ELSE rl.valid]
            /\ UNCHANGED <<files, config, installed, history, cl, edits>>
\* the new catalog is built (load_impl's rule) and installed with one atomic swap
Install == /\ rl.pc = "loading" /\ rl.i > Len(rl.order)
           /\ LET new == NewCat(rl.old, rl.order, rl.valid, "fixed") IN
              /\ installed' = new /\ history' = Append(history, new)
           /\ rl' = Idle
           /\ UNCHANGED <<files, config, cl, edits>>

Begin(c, q) == /\ cl[c].pc = "idle" /\ cl' = [cl EXCEPT ![c] = [pc |-> "begun", q |-> q, snap |-> 0, began |-> Len(history), resp |-> <<>>]]
               /\ UNCHANGED <<files, config, installed, history, rl, edits>>
Snapshot(c) == /\ cl[c].pc = "begun" /\ cl' = [cl EXCEPT ![c].pc = "snapped", ![c].snap = Len(history)]
               /\ UNCHANGED <<files, config, installed, history, rl, edits>>
\* what a response says: which entry answered and what it holds
Answer(cat, q) == LET z == Serving(cat, q) IN IF z = NoneZ THEN <<"refused">> ELSE <<z, cat[z]>>
MixedAnswer(snapcat, now, q) ==
  LET z == Serving(snapcat, q) IN
  IF z = NoneZ THEN <<"refused">> ELSE <<z, IF z \in DOMAIN now THEN now[z] ELSE Fail>>
Respond(c) == /\ cl[c].pc = "snapped"
              /\ cl' = [cl EXCEPT ![c].pc = "done",
                                  ![c].resp = IF Variant = "impl" THEN Answer(history[cl[c].snap], cl[c].q)
                                              ELSE MixedAnswer(history[cl[c].snap], installed, cl[c].q)]
              /\ UNCHANGED <<files, config, installed, history, rl, edits>>
Again(c) == /\ cl[c].pc = "done" /\ cl' = [cl EXCEPT ![c].pc = "idle"]
            /\ UNCHANGED <<files, config, installed, history, rl, edits>>

Queries == Zones \cup {Append(z, "x") : z \in Zones}
Next == \/ \E z \in Zones, v \in 0..MaxVersion : EditFile(z, v)
        \/ \E S \in SUBSET Zones : \E o \in Perms(S) : EditConfig(o)
        \/ Sighup \/ LoadZone \/ Install
        \/ \E c \in Clients : (\E q \in Queries : Begin(c, q)) \/ Snapshot(c) \/ Respond(c) \/ Again(c)
Spec == Init /\ [][Next]_vars

Linearizable == \A c \in Clients : cl[c].pc = "done" =>
                  \E k \in cl[c].began..Len(history) : cl[c].resp = Answer(history[k], cl[c].q)
Fresh == \A c \in Clients : cl[c].pc \in {"snapped", "done"} => cl[c].snap >= cl[c].began
ReloadAtomic == installed = history[Len(history)]
PerZone == \A k \in 2..Len(history) :
             \A z \in DOMAIN history[k] :
               \/ history[k][z].k = "data"                                  \* loaded now, or kept from the previous catalog
               \/ ~(z \in DOMAIN history[k - 1] /\ history[k - 1][z].k = "data")    \* SERVFAIL only if it never had data before
\* a zone that is not configured at the SIGHUP is not in the catalog that reload installs
OnlyConfigured == [][rl.pc = "loading" /\ rl'.pc = "idle" => DOMAIN installed' = {rl.order[i] : i \in 1..Len(rl.order)}]_vars
====
