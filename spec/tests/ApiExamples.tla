---- MODULE ApiExamples ----
(* More of the specification's own unit tests: the documented examples of the NameBuilder API (name/builder.rs),
   class-dependent RDATA layouts, and the InvalidRdata outcome of zone validation. Evaluated with RfcExamples. *)
EXTENDS ZoneStore, TLC
NB == INSTANCE NameBuilder WITH MaxWire <- 255, MaxLabel <- 63, Variant <- "impl"
L(s) == Octets(s)
Rep(o, n) == [i \in 1..n |-> o]

\* the example of the NameBuilder documentation: "exam" + "ple", next label, "test", next label (the null label), finish
B1 == NB!Push(NB!Push(NB!New, L("exam")).st, L("ple")).st
B2 == NB!Push(NB!NextLabel(B1).st, L("test")).st
B3 == NB!NextLabel(B2).st
ASSUME NB!Finish(B3).res = "ok" /\ NB!Finish(B3).name = <<7>> \o L("example") \o <<4>> \o L("test") \o <<0>>
\* a new builder holds the root; a null label cannot be followed by another one; an open label cannot end a name
ASSUME NB!Finish(NB!New).res = "ok" /\ NB!Finish(NB!New).name = <<0>>
ASSUME NB!NextLabel(NB!New).res = "NullNonTerminal" /\ NB!NextLabel(NB!New).st = NB!New
ASSUME NB!Finish(B2).res = "NonNullTerminal"
ASSUME NB!FinishWithSuffix(B3, <<L("org")>>).res = "NullNonTerminal"
ASSUME NB!FinishWithSuffix(B1, <<L("org")>>).name = <<7>> \o L("example") \o <<3>> \o L("org") \o <<0>>
\* limits: a 64th octet in a label, a 255-octet buffer
ASSUME NB!Push(NB!New, Rep(97, 63)).res = "ok" /\ NB!Push(NB!New, Rep(97, 64)).res = "LabelTooLong"
Full == NB!Push(NB!NextLabel(NB!Push(NB!NextLabel(NB!Push(NB!NextLabel(NB!Push(NB!New, Rep(97, 63)).st).st, Rep(98, 63)).st).st, Rep(99, 63)).st).st, Rep(100, 62)).st
ASSUME NB!Fill(Full) = 255 /\ NB!NextLabel(Full).res = "NameTooLong" /\ NB!NextLabel(Full).st = Full /\ NB!Push(Full, <<1>>).res = "NameTooLong"
ASSUME NB!ValidName(<<1, 97, 0>>) /\ ~NB!ValidName(<<1, 97>>) /\ ~NB!ValidName(<<0, 0>>)

\* SRV has its layout only in class IN (RFC 2782); elsewhere type 33 is opaque (RFC 3597)
SrvRd == <<0, 1, 0, 2, 0, 80, 1, 65, 0>>
ASSUME CanonRdataC(1, 33, SrvRd) = <<0, 1, 0, 2, 0, 80, 1, 97, 0>> /\ CanonRdataC(3, 33, SrvRd) = SrvRd
ASSUME Valid(1, 33, SrvRd) /\ ~Valid(1, 33, <<0, 1, 0>>) /\ Valid(3, 33, <<0, 1, 0>>)
ASSUME Equal(1, 33, SrvRd, <<0, 1, 0, 2, 0, 80, 1, 97, 0>>) /\ ~Equal(3, 33, SrvRd, <<0, 1, 0, 2, 0, 80, 1, 97, 0>>)

\* zone validation gives up with InvalidRdata when an NS RDATA is not exactly a name (only in classes with addresses)
ZApex == <<L("z")>>
Rec0(ty, raw) == [owner |-> ZApex, type |-> ty, ttl |-> 60, rdata |-> raw, raw |-> raw]
ZBad(c) == [apex |-> ZApex, state |-> "loaded", class |-> c, recs |-> <<Rec0(2, <<1, 110, 0, 7>>)>>]
ASSUME ~Validate(ZBad(1), FALSE).ok /\ Validate(ZBad(4), FALSE).ok

VARIABLE x
Init == x = 0
Next == x' = x
Spec == Init /\ [][Next]_x
====
