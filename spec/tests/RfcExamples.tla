---- MODULE RfcExamples ----
(* The specification's own unit tests: examples taken from the RFC texts, stated as ASSUMEs and
   evaluated by TLC (run by `run.py setup` and by every thorough check). They guard the shared
   operators every trace specification relies on: an error there would turn thirty checks red or,
   worse, green. *)
EXTENDS Resolve, Catalog, ZoneFile, Rrl, Framing, TLC

N(s) == ParseText(Octets(s)).name          \* a name from its text form
L(s) == Octets(s)

\* ---------------------------------------------------------------- RFC 1035 4.1.4: the compression example
\* F.ISI.ARPA at offset 20, FOO.F.ISI.ARPA at 40 (pointer to 20), ARPA at 64 (pointer to 26), root at 92
Pad(n) == [i \in 1..n |-> 0]
Msg4_1_4 == Pad(20) \o <<1, 70, 3, 73, 83, 73, 4, 65, 82, 80, 65, 0>>          \* 20..31
            \o Pad(8) \o <<3, 70, 79, 79, 192, 20>>                             \* 40..45
            \o Pad(18) \o <<192, 26>>                                           \* 64..65
            \o Pad(26) \o <<0>>                                                 \* 92
ASSUME DecodeName(Msg4_1_4, 20).name = <<L("F"), L("ISI"), L("ARPA")>>
ASSUME DecodeName(Msg4_1_4, 40).name = <<L("FOO"), L("F"), L("ISI"), L("ARPA")>> /\ DecodeName(Msg4_1_4, 40).first = 6
ASSUME DecodeName(Msg4_1_4, 64).name = <<L("ARPA")>> /\ DecodeName(Msg4_1_4, 64).first = 2
ASSUME DecodeName(Msg4_1_4, 92).name = <<>> /\ DecodeName(Msg4_1_4, 92).first = 1
\* a pointer may not point forward or at itself; labels of 64 octets and names over 255 octets are errors
ASSUME ~DecodeName(<<192, 0>>, 0).ok /\ ~DecodeName(<<192, 2, 0>>, 0).ok
ASSUME ~DecodeName(<<64>> \o Pad(64) \o <<0>>, 0).ok
ASSUME DecodeName(<<63>> \o Pad(63) \o <<0>>, 0).ok

\* ---------------------------------------------------------------- RFC 4034 6.1: canonical ordering example
Ord4034 == <<N("example."), N("a.example."), N("yljkjljk.a.example."), N("Z.a.example."), N("zABC.a.EXAMPLE."),
             N("z.example."), N("\\001.z.example."), N("*.z.example."), N("\\200.z.example.")>>
ASSUME \A i, j \in 1..Len(Ord4034) : i < j => CmpName(Ord4034[i], Ord4034[j], 0) = -1 /\ CmpName(Ord4034[j], Ord4034[i], 0) = 1
ASSUME NameEq(N("WWW.Example.COM."), N("www.example.com.")) /\ ~NameEq(N("www.example.com."), N("ww.example.com."))

\* ---------------------------------------------------------------- RFC 1035 5.1 / RFC 4343: text form
ASSUME Render(<<L("a.b"), L("c")>>) = Octets("a\\.b.c.")
ASSUME ParseText(Octets("a\\.b.c.")).name = <<L("a.b"), L("c")>>
ASSUME ParseText(Octets("\\065bc.")).name = <<L("Abc")>>
ASSUME ~ParseText(Octets("a..b.")).ok /\ ~ParseText(Octets("a.b")).ok /\ ParseText(Octets(".")).name = <<>>

\* ---------------------------------------------------------------- RFC 4592 2.2.1: the example zone and its lookups
R(o, t) == [owner |-> LowerName(N(o)), type |-> t, ttl |-> 3600, rdata |-> <<>>, raw |-> <<>>]
Z4592 == [apex |-> N("example."), state |-> "loaded", class |-> 1,
          recs |-> <<R("example.", 6), R("example.", 2), R("*.example.", 16), R("*.example.", 15),
                     R("sub.*.example.", 16), R("host1.example.", 1), R("_ssh._tcp.host1.example.", 33),
                     R("_ssh._tcp.host2.example.", 33), R("subdel.example.", 2)>>]
Lk(q) == LookupBase(Z4592, LowerName(N(q)), FALSE)
\* "the following responses would be synthesized from one of the wildcards in the zone"
ASSUME Lk("host3.example.") = [kind |-> "node", node |-> N("*.example.")]
ASSUME Lk("foo.bar.example.") = [kind |-> "node", node |-> N("*.example.")]
\* "the following responses would not be synthesized"
ASSUME Lk("host1.example.") = [kind |-> "node", node |-> N("host1.example.")]          \* exists (no MX there: NODATA)
ASSUME Lk("sub.*.example.") = [kind |-> "node", node |-> N("sub.*.example.")]          \* exists
ASSUME Lk("_telnet._tcp.host1.example.").kind = "nxdomain"                             \* _tcp.host1.example. exists, no wildcard below it
ASSUME Lk("host.subdel.example.") = [kind |-> "referral", cut |-> N("subdel.example.")]
ASSUME Lk("ghost.*.example.").kind = "nxdomain"                                        \* *.example. exists as closest encloser, no *.*.example.
ASSUME Lk("_tcp.host1.example.") = [kind |-> "node", node |-> N("_tcp.host1.example.")]  \* empty non-terminal
ASSUME LookupChecked(Z4592, N("other."), FALSE).kind = "wrongzone"
ASSUME LookupBase(Z4592, N("host.subdel.example."), TRUE).kind = "nxdomain"              \* searching below the cut: no wildcard at subdel

\* ---------------------------------------------------------------- catalog: longest suffix within the class
CatM == MapInsert(MapInsert(MapInsert(MapEmpty, <<1, <<>>>>, 1), <<1, <<L("b"), L("a")>>>>, 2), <<3, <<L("a")>>>>, 3)
ASSUME MapLookupName(CatM, 1, <<L("x"), L("b"), L("a")>>) = <<<<L("b"), L("a")>>>>
ASSUME MapLookupName(CatM, 1, <<L("a")>>) = <<<<>>>>                     \* falls back to the root entry of class 1
ASSUME MapLookupName(CatM, 3, <<L("x")>>) = <<>>                          \* no entry of class 3 encloses x.
ASSUME MapGet(MapRemove(CatM, <<1, <<>>>>), <<1, <<L("b"), L("a")>>>>) = 2

\* ---------------------------------------------------------------- RFC 1035 5.1 master-file context rules
IRec(form, httl, ttl, hclass) ==
  [k |-> "rec", owner |-> [form |-> form, labels |-> <<L("w")>>, name |-> <<1, 120, 0>>], httl |-> httl, ttl |-> ttl,
   hclass |-> hclass, class |-> 1, type |-> 1, rdata |-> <<1>>, nl |-> 1]
F1 == <<[k |-> "origin", name |-> <<1, 97, 0>>, nl |-> 1], IRec("rel", TRUE, 7, TRUE), [k |-> "ttl", v |-> 9, nl |-> 1],
        IRec("blank", FALSE, 0, FALSE), [k |-> "origin", name |-> <<1, 98, 0>>, nl |-> 1], IRec("at", TRUE, 5, FALSE)>>
P1 == RunFile(Ctx0, F1, 1, 1, <<>>)
ASSUME P1.ok /\ Len(P1.out) = 3
ASSUME P1.out[1].owner = <<1, 119, 1, 97, 0>> /\ P1.out[1].ttl = 7 /\ P1.out[1].line = 2
ASSUME P1.out[2].owner = <<1, 119, 1, 97, 0>> /\ P1.out[2].ttl = 9 /\ P1.out[2].line = 4     \* $TTL beats the previous TTL
ASSUME P1.out[3].owner = <<1, 98, 0>> /\ P1.out[3].ttl = 5 /\ P1.out[3].line = 6              \* @ follows the current origin
ASSUME ~RunFile(Ctx0, <<IRec("blank", TRUE, 1, TRUE)>>, 1, 1, <<>>).ok                          \* no previous owner
ASSUME ~RunFile(Ctx0, <<IRec("abs", TRUE, 1, FALSE)>>, 1, 1, <<>>).ok                           \* no previous class

\* ---------------------------------------------------------------- token bucket arithmetic
ASSUME Refill(10, 3, 2) = 4 /\ Refill(10, 3, 4) = 0 /\ Refill(10, 1000000, 1000000000) = 0 /\ Refill(0, 5, 0) = 0
ASSUME BucketStep(2, 1, 2, 0) = [count |-> 2, send |-> FALSE] /\ BucketStep(2, 1, 2, 1) = [count |-> 2, send |-> TRUE]
ASSUME Dest(<<10, 1, 2, 3>>, 24, 56) = [ipv6 |-> 0, d |-> <<0, 0, 0, 0, 10, 1, 2, 0>>]
ASSUME Dest(<<0, 0, 0, 0, 0, 0, 0, 0, 0, 0, 255, 255, 10, 1, 2, 3>>, 8, 56) = [ipv6 |-> 0, d |-> <<0, 0, 0, 0, 10, 0, 0, 0>>]
ASSUME Dest(<<32, 1, 13, 184, 0, 1, 2, 255, 0, 0, 0, 0, 0, 0, 0, 9>>, 24, 56).d = <<32, 1, 13, 184, 0, 1, 2, 0>>

\* ---------------------------------------------------------------- TCP framing
ASSUME ExpectedStream(<<<<7, 8>>, <<9>>>>) = [stream |-> <<0, 2, 7, 8, 0, 1, 9>>, closes |-> FALSE]
ASSUME ExpectedStream(<<<<7>>, <<>>, <<9>>>>) = [stream |-> <<0, 1, 7>>, closes |-> TRUE]

VARIABLE x
Init == x = 0
Next == UNCHANGED x
Spec == Init /\ [][Next]_x
====
