---- MODULE ServerJudge ----
(* Judgement of one recorded request/response pair against Server!Respond for a configuration `cfg`
   (= [cat, payload, keys, rrl, strict]). `cfg` is declared as a variable so that trace specifications
   can instantiate this module either with their own state variable (TraceServer) or, parameterised,
   with each candidate configuration of a snapshot window (TraceSnapshot: J(c) == INSTANCE ServerJudge
   WITH cfg <- c). Every failed conjunct is attributed to the property that states it. *)
EXTENDS Server, Writer
VARIABLE cfg

MkZone(j) ==
  LET apex == ParseName(j.name)
      all == [i \in 1..Len(j.records) |->
                LET r == j.records[i] IN
                [owner |-> LowerName(ParseName(r.owner).name), type |-> r.type, ttl |-> r.ttl,
                 rdata |-> CanonRdataC(j.class, r.type, r.rdata), raw |-> r.rdata]]
      \* the zone store de-duplicates by RDATA equality (C19/C20): keep the first of each class
      keep == {i \in 1..Len(all) : ~\E k \in 1..(i - 1) :
                 all[k].owner = all[i].owner /\ all[k].type = all[i].type /\ all[k].rdata = all[i].rdata}
      RECURSIVE Pick(_)
      Pick(i) == IF i > Len(all) THEN <<>> ELSE (IF i \in keep THEN <<all[i]>> ELSE <<>>) \o Pick(i + 1)
  IN [apex |-> LowerName(apex.name), state |-> j.state, class |-> j.class, recs |-> Pick(1)]
MkCat(j) == [i \in 1..Len(j.catalog) |-> MkZone(j.catalog[i])]
MkKeys(j) == [i \in 1..Len(j.keys) |-> [name |-> LowerName(ParseName(j.keys[i].name).name), alg |-> j.keys[i].alg, secret |-> j.keys[i].secret]]
MkCfg(j) == [cat |-> MkCat(j), payload |-> j.payload, keys |-> MkKeys(j), rrl |-> j.rrl, strict |-> j.strict]

Ttl(rr) == rr.ttlhi * 65536 + rr.ttllo
Plain(rrs) == [i \in 1..Len(rrs) |-> RR(rrs[i].owner, rrs[i].type, Ttl(rrs[i]), rrs[i].rdata)]
NoPseudo(rrs) == SelectSeq(rrs, LAMBDA r : r.type # 41 /\ r.type # 250)
Opts(rrs) == SelectSeq(rrs, LAMBDA r : r.type = 41)
Tsigs(rrs) == SelectSeq(rrs, LAMBDA r : r.type = 250)
Chk(tag, cond) == IF cond THEN {} ELSE {tag}

QEcho(rq) == LET d == DecodeName(rq, 12) IN WireOf(d.name) \o SubSeq(rq, 12 + d.first + 1, 12 + d.first + 4)

\* start offsets of n records beginning at c (<<>> on failure)
RECURSIVE Starts(_, _, _, _)
Starts(msg, c, n, acc) ==
  IF n = 0 THEN acc
  ELSE LET d == RRDelimit(msg, c) IN IF ~d.ok THEN <<>> ELSE Starts(msg, d.end, n - 1, Append(acc, c))
LastRRStart(msg, qd) ==
  LET c0 == IF qd = 1 THEN 12 + DecodeName(msg, 12).first + 4 ELSE 12
      st == Starts(msg, c0, U16(msg, 6) + U16(msg, 8) + U16(msg, 10), <<>>) IN st[Len(st)]

\* size of the TSIG RR the server has to add (owner and algorithm name are never compressed)
TsigRRLen(t, maclen, otherlen) == Len(WireOf(t.keyname)) + 10 + Len(WireOf(t.f.alg)) + 16 + maclen + otherlen

\* C02: structural well-formedness beyond "decodes completely"
WellFormed(rs) ==
  /\ Len(Opts(rs.an)) = 0 /\ Len(Opts(rs.ns)) = 0 /\ Len(Opts(rs.ar)) <= 1
  /\ Len(Tsigs(rs.an)) = 0 /\ Len(Tsigs(rs.ns)) = 0 /\ Len(Tsigs(rs.ar)) <= 1
  /\ (Len(Tsigs(rs.ar)) = 1 => rs.ar[Len(rs.ar)].type = 250)
  /\ (cfg.strict => \A s \in {rs.an, rs.ns, rs.ar} : \A i \in 1..Len(s) : Valid(s[i].class, s[i].type, s[i].rdata))

\* the response TSIG against expectation t (mode "unsigned" | "signed"); e = whole expectation
TsigFails(r, rs, e) ==
  LET t == e.tsig
      ts == Tsigs(rs.ar) IN
  IF t.mode = "none" THEN Chk("C10", ts = <<>>)
  ELSE IF Len(ts) # 1 THEN {"C10"}
  ELSE LET rt == ts[1]
           rf == TsigFields(rt.rdata)
           f == t.f IN
    IF ~rf.ok THEN {"C02"}
    ELSE Chk("C10", rt.owner = t.keyname /\ rt.class = 255 /\ rt.ttlhi = 0 /\ rt.ttllo = 0)
         \cup Chk("C10", rf.alg = f.alg /\ rf.fudge = 300 /\ rf.origid = f.origid /\ rf.error = t.terr)
         \cup (IF t.mode = "unsigned"
               THEN Chk("C10", rf.mac = <<>> /\ rf.other = <<>> /\ NowIn(rf.time48, r.t0, r.t1))
               ELSE LET rtstart == LastRRStart(r.resp, rs.qd)
                        mac == HMAC(t.alg, t.secret,
                                    Digest(1, r.resp, rtstart, t.keyname, [rf EXCEPT !.origid = f.origid], f.mac)) IN
                    Chk("C10", rf.mac = mac)
                    \cup (IF t.terr = 18
                          THEN Chk("C10", rf.time48 = f.time48 /\ Len(rf.other) = 6 /\ NowIn(rf.other, r.t0, r.t1))
                          ELSE Chk("C10", rf.other = <<>> /\ NowIn(rf.time48, r.t0, r.t1))))

RespFails(r, e) ==
  LET rs == DecodeMessage(r.resp)
      rq == r.req IN
  \* a response that does not decode is C02's; if the octets after the header are not even the request's question
  \* although the header says QDCOUNT = 1, it is also a failure to echo the question (C03)
  \* (a catalog that zone validation would reject may hold RDATA that is malformed for its type; the server copies
  \* what the zone API was given, and a response carrying such a record is not held against C02 - only C01 and the
  \* outcome "some response" are decided there)
  IF ~rs.ok /\ ~cfg.strict THEN {}
  ELSE IF ~rs.ok THEN {"C02"} \cup (IF e.qecho /\ Len(r.resp) >= 12 /\ U16(r.resp, 4) = 1
                                   /\ ~(Len(r.resp) >= 12 + Len(QEcho(rq)) /\ SubSeq(r.resp, 13, 12 + Len(QEcho(rq))) = QEcho(rq))
                                THEN {"C03"} ELSE {})
  ELSE
  LET tc == Bit(rs.flags, 512) = 1
      aa == Bit(rs.flags, 1024) = 1
      an == Plain(rs.an)  ns == Plain(rs.ns)  ar == Plain(NoPseudo(rs.ar))
      opcode == (At(rq, 2) \div 8) % 16
      extr == (rs.flags % 16) + (IF Opts(rs.ar) # <<>> THEN (Opts(rs.ar)[1].ttlhi \div 256) * 16 ELSE 0)
      nodata == an = <<>> /\ ns = <<>> /\ ar = <<>>
      slipped == cfg.rrl /\ r.transport = "udp" /\ opcode = 0 /\ tc /\ nodata
  IN
     Chk("C02", WellFormed(rs))
     \cup Chk("C13", PointersOk(r.resp, {}))
     \cup Chk("C04", Len(r.resp) <= e.limit /\ (r.transport = "tcp" => ~tc))
     \cup Chk("C03", /\ rs.id = U16(rq, 0)
                     /\ Bit(rs.flags, 32768) = 1
                     /\ (rs.flags \div 2048) % 16 = opcode
                     /\ Bit(rs.flags, 256) = (IF opcode = 0 THEN At(rq, 2) % 2 ELSE 0)
                     /\ Bit(rs.flags, 128) = 0 /\ (rs.flags \div 16) % 8 = 0
                     /\ (e.qecho => (rs.qd = 1 /\ rs.qsec = QEcho(rq)))
                     /\ (~e.qecho => rs.qd = 0))
     \cup Chk("C09", /\ (extr = 16) = (e.rcode = 16)            \* BADVERS exactly when the specification prescribes it
                     /\ Len(Opts(rs.ar)) = (IF e.edns THEN 1 ELSE 0)
                     /\ (e.edns => LET o == Opts(rs.ar)[1] IN
                                   o.owner = <<>> /\ o.class = cfg.payload /\ o.ttlhi % 256 = 0 /\ o.ttllo = 0 /\ o.rdata = <<>>))
     \cup TsigFails(r, rs, e)
     \cup (IF slipped THEN {}
           ELSE IF ~e.hasAns THEN
                Chk(e.src, extr = e.rcode /\ nodata /\ ~aa) \cup Chk("C04", ~tc)
                \* C08 states it for every source of a FORMERR: "FORMERR is never replaced by any other RCODE"
                \cup (IF e.rcode = 1 THEN Chk("C08", extr = 1) ELSE {})
           ELSE IF tc THEN Chk("C04", r.transport = "udp" /\ nodata)
           ELSE Chk(e.src, /\ extr = e.ans.rcode
                           /\ aa = e.ans.aa
                           /\ SameBag(an, e.ans.an)
                           /\ SameBag(ns, e.ans.ns)
                           /\ Range(ar) \subseteq Range(e.ans.ar)
                           /\ (r.transport = "tcp" => Range(ar) = Range(e.ans.ar))
                           /\ ("glue" \in DOMAIN e.ans => Range(e.ans.glue) \subseteq Range(ar)))
                \* C04 states it too: a response with TC clear never lacks in-bailiwick referral glue
                \cup Chk("C04", "glue" \in DOMAIN e.ans => Range(e.ans.glue) \subseteq Range(ar)))

\* expectation vs recorded outcome for one choice of the server's clock
FailsAt(r, now) ==
  LET e == Respond(r.req, r.transport, cfg, now) IN
  \* a panic is C01's; where a response was due it is also a failure of the property that prescribes that response
  \* (and of C09 / C10 when the response had to carry an OPT / a TSIG record)
  IF r.out = "panic" THEN {"C01"} \cup (IF e.kind = "none" THEN {} ELSE
                                          {e.src} \cup (IF e.edns THEN {"C09"} ELSE {}) \cup (IF e.tsig.mode # "none" THEN {"C10"} ELSE {}))
  ELSE IF e.kind = "none" THEN Chk("C03", r.out = "none")
  ELSE LET tooBig == e.tsig.mode # "none" /\
                     12 + (IF e.qecho THEN Len(QEcho(r.req)) ELSE 0) + (IF e.edns THEN 11 ELSE 0)
                     + TsigRRLen(e.tsig, (IF e.tsig.mode = "unsigned" THEN 0 ELSE OutLen(e.tsig.alg)),
                                 (IF e.tsig.terr = 18 THEN 6 ELSE 0)) > e.limit
           dropped == cfg.rrl /\ r.transport = "udp" /\ (At(r.req, 2) \div 8) % 16 = 0 IN
    IF tooBig THEN Chk("C10", r.out = "none")
    ELSE IF r.out = "none" THEN Chk("C03", dropped)
    ELSE RespFails(r, e)

Fails(r) ==
  IF r.t0 = r.t1 \/ ~MentionsTsig(r.req) THEN FailsAt(r, r.t0)
  ELSE LET a == FailsAt(r, r.t0) IN IF a = {} THEN {} ELSE
       LET b == FailsAt(r, r.t1) IN IF b = {} THEN {} ELSE a

\* C04: relation between the UDP response and the complete (TCP) response to the same request
\* The least a UDP response to this request can be: everything up to the end of the authority section plus the
\* mandatory glue (in-bailiwick addresses of a referral) plus the OPT record, each as encoded in the complete (TCP)
\* response - the same writer produces the same octets for that prefix, and mandatory glue is written before
\* optional addresses. If that fits, truncating is not "the complete answer does not fit".
RECURSIVE SumSizes(_, _, _, _, _)
SumSizes(msg, st, idx, glue, ar) ==      \* idx = positions in ar (1-based) still to look at, as a sequence
  IF idx = <<>> THEN 0
  ELSE LET i == Head(idx)
           rr == ar[i]
           mand == RR(rr.owner, rr.type, rr.ttlhi * 65536 + rr.ttllo, rr.rdata) \in Range(glue) IN
       (IF mand THEN RRDelimit(msg, st[i]).end - st[i] ELSE 0) + SumSizes(msg, st, Tail(idx), glue, ar)
NeedLen(r, e, t) ==
  LET c0 == IF t.qd = 1 THEN 12 + DecodeName(r.tcp, 12).first + 4 ELSE 12
      n == U16(r.tcp, 6) + U16(r.tcp, 8)
      na == U16(r.tcp, 10)
      st == Starts(r.tcp, c0, n + na, <<>>)
      endAuth == IF n = 0 THEN c0 ELSE RRDelimit(r.tcp, st[n]).end
      glue == IF e.hasAns /\ "glue" \in DOMAIN e.ans THEN e.ans.glue ELSE <<>>
      arStarts == [i \in 1..na |-> st[n + i]] IN
  endAuth + SumSizes(r.tcp, arStarts, [i \in 1..na |-> i], glue, t.ar) + (IF e.edns THEN 11 ELSE 0)

UdpVsTcp(r) ==
  ("tcp" \in DOMAIN r /\ r.out = "resp") =>
    LET e == Respond(r.req, r.transport, cfg, r.t0)
        u == DecodeMessage(r.resp)  t == DecodeMessage(r.tcp) IN
    /\ t.ok /\ Bit(t.flags, 512) = 0
    /\ u.ok
    /\ IF Len(r.tcp) <= e.limit
       THEN IF ~MentionsTsig(r.req) THEN r.resp = r.tcp
            \* signed responses carry their own time and MAC: same sections, not truncated
            ELSE /\ Bit(u.flags, 512) = 0 /\ Len(r.resp) = Len(r.tcp)
                 /\ Plain(u.an) = Plain(t.an) /\ Plain(u.ns) = Plain(t.ns) /\ Plain(NoPseudo(u.ar)) = Plain(NoPseudo(t.ar))
       ELSE IF Bit(u.flags, 512) = 1 THEN TRUE
       ELSE /\ SameBag(Plain(u.an), Plain(t.an)) /\ SameBag(Plain(u.ns), Plain(t.ns))
            /\ Range(Plain(NoPseudo(u.ar))) \subseteq Range(Plain(NoPseudo(t.ar)))

\* TC although the mandatory content fits: C04 ("when the complete answer does not fit") and, because what is
\* mandatory in a referral is C05's statement (in-bailiwick glue must be there, other addresses may be dropped), C05
NeedlessTc(r) ==
  ("tcp" \in DOMAIN r /\ r.out = "resp" /\ ~cfg.rrl /\ ~MentionsTsig(r.req)) =>
    LET e == Respond(r.req, r.transport, cfg, r.t0)
        u == DecodeMessage(r.resp)  t == DecodeMessage(r.tcp) IN
    (t.ok /\ u.ok /\ Bit(u.flags, 512) = 1) => NeedLen(r, e, t) > e.limit

AllFails(r) == Fails(r) \cup Chk("C04", UdpVsTcp(r)) \cup (IF NeedlessTc(r) THEN {} ELSE {"C04", "C05"})

====
