---- MODULE Reader ----
(* message/reader.rs as a cursor machine: variables cursor and mark; one action per
   public method. Successful reads must agree with the independent decoder (Names,
   Rdata!Read), a failed operation leaves the cursor where it was, and no operation
   panics. RunR folds a recorded call sequence over the machine. *)
EXTENDS Server

Question(msg, c) ==
  LET q == IF c >= Len(msg) THEN [ok |-> FALSE] ELSE DecodeName(msg, c) IN
  IF ~q.ok \/ c + q.first + 4 > Len(msg) THEN [ok |-> FALSE]
  ELSE [ok |-> TRUE, name |-> WireOf(q.name), qtype |-> U16(msg, c + q.first), qclass |-> U16(msg, c + q.first + 2), end |-> c + q.first + 4]
SkipQ(msg, c) == LET ch == Chunk(msg, c, 0) IN IF ch = 0 \/ c + ch + 4 > Len(msg) THEN [ok |-> FALSE] ELSE [ok |-> TRUE, end |-> c + ch + 4]
FullRR(msg, c) ==
  LET o == IF c >= Len(msg) THEN [ok |-> FALSE] ELSE DecodeName(msg, c) IN
  IF ~o.ok THEN [ok |-> FALSE]
  ELSE LET e == c + o.first IN
    IF e + 10 > Len(msg) THEN [ok |-> FALSE]
    ELSE LET ty == U16(msg, e)  cl == U16(msg, e + 2)  rdl == U16(msg, e + 8)
             rd == Read(cl, ty, msg, e + 10, rdl)
             ttlhi == U16(msg, e + 4) IN
      IF ~rd.ok THEN [ok |-> FALSE]
      ELSE [ok |-> TRUE, owner |-> WireOf(o.name), type |-> ty, class |-> cl,
            ttl |-> IF ttlhi >= 32768 THEN 0 ELSE ttlhi * 65536 + U16(msg, e + 6), rdata |-> rd.rd, end |-> e + 10 + rdl]

RECURSIVE RunR(_, _, _, _, _)
RunR(msg, ops, i, cur, mark) ==
  IF i > Len(ops) THEN TRUE
  ELSE LET o == ops[i]
           same == o.cursor = cur /\ o.eom = (cur >= Len(msg))
           next(c, m) == RunR(msg, ops, i + 1, c, m) IN
    IF o.op = "hdr" THEN
       /\ o.id = U16(msg, 0) /\ o.qr = (Bit(U16(msg, 2), 32768) = 1) /\ o.opcode = (U16(msg, 2) \div 2048) % 16
       /\ o.aa = (Bit(U16(msg, 2), 1024) = 1) /\ o.tc = (Bit(U16(msg, 2), 512) = 1) /\ o.rd = (Bit(U16(msg, 2), 256) = 1)
       /\ o.ra = (Bit(U16(msg, 2), 128) = 1) /\ o.rcode = U16(msg, 2) % 16
       /\ o.qd = U16(msg, 4) /\ o.an = U16(msg, 6) /\ o.ns = U16(msg, 8) /\ o.ar = U16(msg, 10) /\ o.cursor = 12
       /\ next(12, mark)
    ELSE IF o.res = "panic" THEN FALSE
    ELSE IF o.op = "read_q" THEN
       LET q == Question(msg, cur) IN
       IF q.ok THEN o.res = "ok" /\ o.name = q.name /\ o.qtype = q.qtype /\ o.qclass = q.qclass /\ o.cursor = q.end /\ next(q.end, mark)
       ELSE o.res = "err" /\ same /\ next(cur, mark)
    ELSE IF o.op = "skip_q" THEN
       LET q == SkipQ(msg, cur) IN IF q.ok THEN o.res = "ok" /\ o.cursor = q.end /\ next(q.end, mark) ELSE o.res = "err" /\ same /\ next(cur, mark)
    ELSE IF o.op \in {"read_rr", "peek_parse"} THEN
       LET d == RRDelimit(msg, cur)  f == FullRR(msg, cur) IN
       IF o.op = "peek_parse" /\ ~d.ok THEN o.res = "err" /\ same /\ next(cur, mark)
       ELSE IF f.ok THEN o.res = "ok" /\ o.owner = f.owner /\ o.type = f.type /\ o.class = f.class /\ o.ttl = f.ttl /\ o.rdata = f.rdata /\ o.cursor = f.end /\ next(f.end, mark)
       ELSE o.res \in {"err", "parse_err"} /\ same /\ next(cur, mark)
    ELSE IF o.op \in {"skip_rr", "peek_skip", "peek_drop"} THEN
       LET d == RRDelimit(msg, cur) IN
       IF ~d.ok THEN o.res = "err" /\ same /\ next(cur, mark)
       ELSE /\ o.res = "ok"
            /\ (o.op = "peek_skip" => o.type = d.type /\ o.class = d.class /\ o.rdlen = d.rdlen /\ o.ttl = (IF d.ttlhi >= 32768 THEN 0 ELSE d.ttlhi * 65536 + d.ttllo))
            /\ IF o.op = "peek_drop" THEN same /\ next(cur, mark) ELSE o.cursor = d.end /\ next(d.end, mark)
    ELSE IF o.op = "peek_owner" THEN
       LET d == RRDelimit(msg, cur)  ow == DecodeName(msg, cur) IN
       IF ~d.ok THEN o.res = "err" /\ same /\ next(cur, mark)
       ELSE IF ow.ok THEN o.res = "ok" /\ o.owner = WireOf(ow.name) /\ o.upto = cur /\ same /\ next(cur, mark)
       ELSE o.res = "owner_err" /\ same /\ next(cur, mark)
    ELSE IF o.op = "mark" THEN same /\ next(cur, cur)
    ELSE IF o.op = "rewind" THEN o.cursor = mark /\ next(mark, mark)
    ELSE same /\ next(cur, mark)
====
