---- MODULE Crypto ----
(* HMAC-SHA1 / HMAC-SHA256 are trusted primitives: the operator is implemented by
   the JDK (overrides/CryptoImpl.java). The specification fixes what is
   authenticated and the accept/reject logic, not the hash function. *)
HMAC(alg, key, data) == CHOOSE x \in {} : TRUE
====
