---- MODULE Writer ----
(* message/writer.rs as a state machine over its public operations. A recorded
   operation o carries its arguments, its result, and the (cursor, available,
   limit) triple before (c0, a0) and after the call (verif_state hook).
   The rules: error kind and precedence per operation; a failed operation changes
   nothing; Truncation is permitted only when the uncompressed encoding does not
   fit in available - cursor; the finished octets decode (Wire!DecodeMessageG) to
   exactly the accepted content in order; every compression pointer is legal. *)
EXTENDS Wire

S0 == [id |-> 0, qr |-> FALSE, opcode |-> 0, aa |-> FALSE, tc |-> FALSE, rd |-> FALSE, ra |-> FALSE, rcode |-> 0, xhi |-> 0,
       edns |-> FALSE, payload |-> 0, section |-> 0, mode |-> 0, qs |-> <<>>, rrs |-> <<>>, ok |-> TRUE, why |-> "none"]

\* what Rdata::components needs: the embedded names parse (nothing else is looked at)
ComponentsOk(class, type, rd) ==
  IF type \in NameTypes THEN ParseNamePrefix(rd).ok
  ELSE IF type = 15 THEN Len(rd) >= 2 /\ ParseNamePrefix(SubSeq(rd, 3, Len(rd))).ok
  ELSE IF type = 33 /\ class = 1 THEN Len(rd) >= 6 /\ ParseNamePrefix(SubSeq(rd, 7, Len(rd))).ok
  ELSE IF type = 1 /\ class = 3 THEN ParseNamePrefix(rd).ok
  ELSE IF type \in {6, 14} THEN LET m == ParseNamePrefix(rd) IN m.ok /\ ParseNamePrefix(SubSeq(rd, m.first + 1, Len(rd))).ok
  ELSE TRUE

RECURSIVE SumLen(_)
SumLen(ss) == IF ss = <<>> THEN 0 ELSE Len(Head(ss)) + SumLen(Tail(ss))

Fail(s, why) == [s EXCEPT !.ok = FALSE, !.why = why]
Unchanged(o) == o.cursor = o.c0 /\ o.avail = o.a0

Apply(s, o) ==
  IF ~s.ok THEN s
  ELSE IF o.op = "flag" THEN
     (IF o.f = 0 THEN [s EXCEPT !.qr = o.v] ELSE IF o.f = 1 THEN [s EXCEPT !.aa = o.v] ELSE IF o.f = 2 THEN [s EXCEPT !.tc = o.v]
      ELSE IF o.f = 3 THEN [s EXCEPT !.rd = o.v] ELSE IF o.f = 4 THEN [s EXCEPT !.ra = o.v] ELSE [s EXCEPT !.id = IF o.v THEN 48879 ELSE 7])
  ELSE IF o.op = "opcode" THEN [s EXCEPT !.opcode = o.v]
  ELSE IF o.op = "rcode" THEN [s EXCEPT !.rcode = o.v, !.xhi = 0]
  ELSE IF o.op = "xrcode" THEN
     IF ~s.edns THEN (IF o.res = "NotEdns" THEN s ELSE Fail(s, "xrcode-notedns"))
     ELSE IF o.v > 4095 THEN (IF o.res = "ExtendedRcodeOverflow" THEN s ELSE Fail(s, "xrcode-overflow"))
     ELSE IF o.res = "ok" THEN [s EXCEPT !.rcode = o.v % 16, !.xhi = o.v \div 16] ELSE Fail(s, "xrcode-ok")
  ELSE IF o.op = "question" THEN
     IF s.section # 0 THEN (IF o.res = "OutOfOrder" /\ Unchanged(o) THEN s ELSE Fail(s, "question-order"))
     ELSE IF o.res = "ok" THEN [s EXCEPT !.qs = Append(@, [name |-> ParseName(o.name).name, qtype |-> o.qtype, qclass |-> o.qclass, mode |-> s.mode])]
     ELSE IF o.res = "Truncation" /\ Unchanged(o) /\ Len(o.name) + 4 > o.a0 - o.c0 THEN s
     ELSE IF o.res = "CountOverflow" /\ Unchanged(o) /\ Len(s.qs) = 65535 THEN s
     ELSE Fail(s, "question-trunc")
  ELSE IF o.op = "rr" THEN
     LET maxsec == IF o.sec = 0 THEN 1 ELSE IF o.sec = 1 THEN 2 ELSE 3
         orderOk == s.section <= maxsec
         compOk == \A i \in 1..Len(o.rdatas) : ComponentsOk(o.class, o.type, o.rdatas[i])
         size == Len(o.rdatas) * (Len(o.owner) + 10) + SumLen(o.rdatas)
         owner == ParseName(o.owner).name
     IN
     IF ~orderOk THEN (IF o.res = "OutOfOrder" /\ Unchanged(o) THEN s ELSE Fail(s, "rr-order"))
     ELSE IF o.res = "ok" THEN
        IF ~compOk THEN Fail(s, "rr-ok-but-invalid")
        ELSE [s EXCEPT !.section = maxsec,
                       !.rrs = @ \o [i \in 1..Len(o.rdatas) |-> [sec |-> o.sec, owner |-> owner, type |-> o.type, class |-> o.class,
                                                                 ttl |-> o.ttl, rdata |-> o.rdatas[i], mode |-> s.mode]]]
     ELSE IF o.res = "InvalidRdata" /\ ~compOk /\ Unchanged(o) THEN s
     ELSE IF o.res = "Truncation" /\ Unchanged(o) /\ size > o.a0 - o.c0 THEN s
     ELSE Fail(s, "rr-error")
  ELSE IF o.op = "limit" THEN s
  ELSE IF o.op = "comp" THEN [s EXCEPT !.mode = o.v]
  ELSE IF o.op = "edns" THEN
     IF s.edns THEN (IF o.res = "AlreadyEdns" THEN s ELSE Fail(s, "edns-already"))
     ELSE IF o.c0 + 11 > o.a0 THEN (IF o.res = "Truncation" THEN s ELSE Fail(s, "edns-trunc"))
     ELSE IF o.res = "ok" /\ o.avail = o.a0 - 11 THEN [s EXCEPT !.edns = TRUE, !.payload = o.v] ELSE Fail(s, "edns-ok")
  ELSE IF o.op = "clear" THEN [s EXCEPT !.rrs = <<>>, !.section = 0]
  ELSE Fail(s, "unknown-op")

RECURSIVE Run(_, _, _)
Run(s, ops, i) == IF i > Len(ops) THEN s ELSE Run(Apply(s, ops[i]), ops, i + 1)

\* cursor / available / limit discipline visible through verif_state (every operation, failed or not)
RECURSIVE StateOk(_, _, _)
StateOk(ops, i, buflen) ==
  i > Len(ops) \/
  (LET o == ops[i] IN
   /\ o.cursor <= o.avail /\ o.avail <= o.limit /\ o.limit <= buflen
   /\ o.c0 <= o.cursor \/ o.op = "clear"
   /\ (i > 1 => o.c0 = ops[i - 1].cursor /\ o.a0 = ops[i - 1].avail)
   /\ StateOk(ops, i + 1, buflen))

\* ---- name-exactness: expected item vs decoded-with-case item under the compression mode of the operation
NameMatches(mode, given, got) == IF mode = 0 THEN LowerName(given) = LowerName(got) ELSE given = got
RdataMatches(mode, type, given, got) ==
  IF mode = 0 THEN CanonRdata(type, given) = CanonRdata(type, got) ELSE CanonMsgRdataG(given, 0, Len(given), type, FALSE) = got
RRMatches(e, g) ==
  /\ NameMatches(e.mode, e.owner, g.owner) /\ e.type = g.type /\ e.class = g.class
  /\ e.ttl = g.ttlhi * 65536 + g.ttllo /\ RdataMatches(e.mode, e.type, e.rdata, g.rdata)
SeqMatches(es, gs) == Len(es) = Len(gs) /\ \A i \in 1..Len(es) : RRMatches(es[i], gs[i])
QMatches(es, gs) == Len(es) = Len(gs) /\ \A i \in 1..Len(es) :
                      NameMatches(es[i].mode, es[i].name, gs[i].name) /\ es[i].qtype = gs[i].qtype /\ es[i].qclass = gs[i].qclass
SecOf(s, k) == SelectSeq(s.rrs, LAMBDA x : x.sec = k)
\* the names alone: every owner and every RDATA reads back as given (a legal pointer to the wrong name fails here and
\* nowhere else: C13's "the suffix found at the target is the suffix of the name that was given")
NamesMatch(es, gs) == Len(es) = Len(gs) => \A i \in 1..Len(es) :
                        NameMatches(es[i].mode, es[i].owner, gs[i].owner) /\ RdataMatches(es[i].mode, es[i].type, es[i].rdata, gs[i].rdata)

\* ---- C13: every pointer targets the first octet of a literal label of a name that starts earlier
RECURSIVE Lit(_, _, _)
Lit(msg, off, acc) ==       \* literal label starts of the name field at off, its pointer (or 0), and its end
  LET len == At(msg, off) IN
  IF len >= 192 THEN [starts |-> acc, has |-> TRUE, ptr |-> (len - 192) * 256 + At(msg, off + 1), end |-> off + 2]
  ELSE IF len = 0 THEN [starts |-> acc, has |-> FALSE, ptr |-> 0, end |-> off + 1]
  ELSE Lit(msg, off + len + 1, acc \cup {off})
\* name fields of n RRs starting at cur: [off, may (pointer permitted), idx (record index in message order)]
RECURSIVE FieldsOfRRs(_, _, _, _, _)
FieldsOfRRs(msg, cur, n, acc, idx) ==
  IF n = 0 THEN [fields |-> acc, cursor |-> cur]
  ELSE LET o == Lit(msg, cur, {})
           e == o.end
           ty == U16(msg, e)  cl == U16(msg, e + 2)  rdl == U16(msg, e + 8)
           rd == e + 10
           F(off, may) == [off |-> off, may |-> may, idx |-> idx]
           inner == IF ty \in NameTypes THEN <<F(rd, TRUE)>>
                    ELSE IF ty = 15 THEN <<F(rd + 2, TRUE)>>
                    ELSE IF ty \in {6, 14} THEN <<F(rd, TRUE), F(Lit(msg, rd, {}).end, TRUE)>>
                    ELSE IF ty = 33 /\ cl = 1 THEN <<F(rd + 6, FALSE)>>
                    ELSE IF ty = 1 /\ cl = 3 THEN <<F(rd, FALSE)>>
                    ELSE <<>>
               \* every owner name may be compressed (the TSIG record's too: it is written through add_rr like any
               \* other record); names inside TSIG RDATA (the algorithm name) never
           own == F(cur, TRUE)
           inner2 == IF ty = 250 THEN <<F(rd, FALSE)>> ELSE inner
       IN FieldsOfRRs(msg, rd + rdl, n - 1, acc \o <<own>> \o inner2, idx + 1)
RECURSIVE FieldsOfQs(_, _, _, _, _)
FieldsOfQs(msg, cur, n, acc, idx) ==
  IF n = 0 THEN [fields |-> acc, cursor |-> cur]
  ELSE LET o == Lit(msg, cur, {}) IN FieldsOfQs(msg, o.end + 4, n - 1, Append(acc, [off |-> cur, may |-> TRUE, idx |-> idx]), idx + 1)
\* disabled(idx) = the item with that index was written with compression disabled
RECURSIVE PtrCheck(_, _, _, _, _)
PtrCheck(msg, fields, i, known, disabled) ==
  IF i > Len(fields) THEN TRUE
  ELSE LET f == fields[i]
           o == Lit(msg, f.off, {}) IN
       \* (a pointer to offset 0 is a pointer too: "has", not "ptr # 0")
       /\ (o.has => (f.may /\ o.ptr \in known /\ o.ptr < f.off /\ f.idx \notin disabled))
       /\ PtrCheck(msg, fields, i + 1, known \cup o.starts, disabled)
PointersOk(msg, disabled) ==
  LET q == FieldsOfQs(msg, 12, U16(msg, 4), <<>>, 1)
      r == FieldsOfRRs(msg, q.cursor, U16(msg, 6) + U16(msg, 8) + U16(msg, 10), q.fields, U16(msg, 4) + 1) IN
  PtrCheck(msg, r.fields, 1, {}, disabled)
====
