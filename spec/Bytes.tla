---- MODULE Bytes ----
(* Octet strings are sequences of 0..255 (TLA+ strings cannot be indexed).
   Offsets are 0-based like in the code; sequences are 1-based. *)
EXTENDS Naturals, Integers, Sequences, FiniteSets, TLC

At(b, i) == b[i + 1]
U16(b, i) == At(b, i) * 256 + At(b, i + 1)
U16Be(n) == <<n \div 256, n % 256>>
Lower(o) == IF o >= 65 /\ o <= 90 THEN o + 32 ELSE o
Upper(o) == IF o >= 97 /\ o <= 122 THEN o - 32 ELSE o
LowerSeq(s) == [i \in 1..Len(s) |-> Lower(s[i])]
UpperSeq(s) == [i \in 1..Len(s) |-> Upper(s[i])]
Range(s) == {s[i] : i \in 1..Len(s)}
Count(s, x) == Cardinality({i \in 1..Len(s) : s[i] = x})
SameBag(a, b) == Len(a) = Len(b) /\ \A x \in Range(a) \cup Range(b) : Count(a, x) = Count(b, x)
Min(a, b) == IF a < b THEN a ELSE b
Max(a, b) == IF a > b THEN a ELSE b
Rest(b, off) == SubSeq(b, off + 1, Len(b))
Bit(w, k) == (w \div k) % 2

RECURSIVE Flatten(_)
Flatten(ss) == IF ss = <<>> THEN <<>> ELSE Head(ss) \o Flatten(Tail(ss))

\* Implemented in Java (overrides/CryptoImpl.java); the TLA+ bodies are never evaluated.
Octets(str) == CHOOSE x \in {} : TRUE
StrOf(octets) == CHOOSE x \in {} : TRUE
====
