---- MODULE Framing ----
(* DNS over TCP framing (RFC 1035 4.2.2) as the I/O providers implement it (io/blocking.rs,
   io/tokio.rs) and what C30 states about it.

   Declarative side: the octets a connection returns are the concatenation, in request order, of
   the length-prefixed responses to the length-prefixed requests, up to the first request that
   gets no response, after which the connection is closed; each response is the server's response
   to that request alone. A UDP request gets at most one datagram, sent from the server's port to
   the request's source, no larger than the configured payload size.

   Implementation side (MC_Framing): the read loop with its buffer, n_read, cached length and
   leftover handling, for every segmentation of the request stream into reads. *)
EXTENDS Naturals, Sequences

B16(n) == <<n \div 256, n % 256>>
\* direct[i] = the server's response to request i alone (<<>> = no response)
RECURSIVE ExpectedFrom(_, _, _)
ExpectedFrom(direct, i, acc) ==     \* [stream, closes]
  IF i > Len(direct) THEN [stream |-> acc, closes |-> FALSE]
  ELSE IF direct[i] = <<>> THEN [stream |-> acc, closes |-> TRUE]
  ELSE ExpectedFrom(direct, i + 1, acc \o B16(Len(direct[i])) \o direct[i])
ExpectedStream(direct) == ExpectedFrom(direct, 1, <<>>)
====
