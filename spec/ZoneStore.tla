---- MODULE ZoneStore ----
(* db/hash_map_tree/zone.rs + db/rrset.rs as an abstract store: a sequence of records
   (owner lower-cased, type, ttl, canonical and raw RDATA). add: guards in the code's
   order (owner at or below the apex, class, TTL of the RRset), duplicates by RDATA
   equality (Rdata!Equal) are ignored; iteration yields every node once, empty
   non-terminals included, with exactly the de-duplicated RRsets. Validation: the issue
   set of db/zone/validation.rs. *)
EXTENDS Resolve

\* ---------- add
AddResult(z, a) ==
  LET owner == LowerName(ParseName(a.owner).name) IN
  IF ~IsSuffix(z.apex, owner) THEN "NotInZone"
  ELSE IF a.class # z.class THEN "ClassMismatch"
  ELSE LET ex == RRsetAt(z, owner, a.type) IN
       IF ex # <<>> /\ ex[1].ttl # a.ttl THEN "TtlMismatch" ELSE "ok"
AddRec(z, a) ==
  LET owner == LowerName(ParseName(a.owner).name)
      dup == \E i \in 1..Len(z.recs) : z.recs[i].owner = owner /\ z.recs[i].type = a.type /\ Equal(z.class, a.type, z.recs[i].raw, a.rdata)
  IN IF dup THEN z ELSE [z EXCEPT !.recs = Append(@, [owner |-> owner, type |-> a.type, ttl |-> a.ttl, rdata |-> CanonRdata(a.type, a.rdata), raw |-> a.rdata])]
NRrsets(z) == Cardinality({<<z.recs[k].owner, z.recs[k].type>> : k \in 1..Len(z.recs)})
\* every add must return what the spec prescribes, and the store (observed through the
\* number of nodes and RRsets after the call) must change exactly when the add succeeds
RECURSIVE Build(_, _, _)
Build(z, adds, i) ==      \* returns [z, ok]
  IF i > Len(adds) THEN [z |-> z, ok |-> TRUE]
  ELSE LET res == AddResult(z, adds[i])
           z2 == IF res = "ok" THEN AddRec(z, adds[i]) ELSE z IN
       IF res # adds[i].res \/ adds[i].nrr # NRrsets(z2) \/ adds[i].nnodes # Cardinality(Nodes(z2)) THEN [z |-> z, ok |-> FALSE]
       ELSE Build(z2, adds, i + 1)

\* ---------- iteration
IterOk(z, nodes) ==
  LET names == [i \in 1..Len(nodes) |-> LowerName(ParseName(nodes[i].name).name)] IN
  /\ Range(names) = Nodes(z) /\ Cardinality(Range(names)) = Len(nodes)          \* every node exactly once, ENTs included
  /\ \A i \in 1..Len(nodes) :
       LET n == names[i]
           types == {nodes[i].rrsets[k].type : k \in 1..Len(nodes[i].rrsets)} IN
       /\ types = TypesAt(z, n) /\ Cardinality(types) = Len(nodes[i].rrsets)
       /\ \A k \in 1..Len(nodes[i].rrsets) :
            LET s == nodes[i].rrsets[k]  e == RRsetAt(z, n, s.type) IN
            /\ s.ttl = e[1].ttl
            /\ [j \in 1..Len(s.rdatas) |-> CanonRdata(s.type, s.rdatas[j])] = [j \in 1..Len(e) |-> e[j].rdata]

\* ---------- validation (db/zone/validation.rs)
HasAddrs(z, node) == RRsetAt(z, node, 1) # <<>> \/ (z.class = 1 /\ RRsetAt(z, node, 28) # <<>>)
ClassHasAddrs(z) == z.class \in {1, 3}

ApexLike(z, name, kind) ==       \* check_apex_ns_address / check_mx_address
  LET l == LookupChecked(z, name, FALSE) IN
  IF l.kind = "node" THEN (IF HasAddrs(z, l.node) THEN {} ELSE {<<kind, name>>})
  ELSE IF l.kind = "nxdomain" THEN {<<kind, name>>}
  ELSE {}

Glue(z, name) ==
  LET l == LookupChecked(z, name, TRUE) IN
  IF l.kind = "node" /\ HasAddrs(z, l.node) THEN {} ELSE {<<"MissingGlue", name>>}

Deleg(z, name, owner, wide) ==   \* check_delegation_ns_address
  LET l == LookupChecked(z, name, FALSE) IN
  IF l.kind = "node" THEN (IF HasAddrs(z, l.node) THEN {} ELSE {<<"MissingNsAddress", name>>})
  ELSE IF l.kind = "nxdomain" THEN {<<"MissingNsAddress", name>>}
  ELSE IF l.kind = "referral" THEN (IF wide \/ l.cut = owner THEN Glue(z, name) ELSE {})
  ELSE {}

NameAt(raw, off) == NameInRdata(raw, off)

\* returns [ok, issues]; ok = FALSE when validate() itself must fail with InvalidRdata
Validate(z, wide) ==
  LET soa == RRsetAt(z, z.apex, 6)
      ns == RRsetAt(z, z.apex, 2)
      root == <<>>
      i1 == IF soa = <<>> THEN {<<"MissingApexSoa", root>>} ELSE IF Len(soa) # 1 THEN {<<"TooManyApexSoas", root>>} ELSE {}
      i2 == IF ns = <<>> THEN {<<"MissingApexNs", root>>}
            ELSE IF ClassHasAddrs(z) THEN UNION {ApexLike(z, LowerName(NameAt(ns[k].raw, 0).name), "MissingNsAddress") : k \in 1..Len(ns)}
            ELSE {}
      perRec(r) ==
        LET nodeTypes == TypesAt(z, r.owner) IN
        IF r.type = 5 THEN
           (IF Cardinality(nodeTypes) # 1 THEN {<<"OtherRecordsAtCname", r.owner>>} ELSE {})
           \cup (IF Len(RRsetAt(z, r.owner, 5)) # 1 THEN {<<"DuplicateCname", r.owner>>} ELSE {})
        ELSE IF r.type = 15 THEN
           (IF ClassHasAddrs(z) THEN ApexLike(z, LowerName(NameAt(r.raw, 2).name), "MissingMxAddress") ELSE {})
        ELSE IF r.type = 2 THEN
           (IF Len(r.owner) > 0 /\ r.owner[1] = <<42>> THEN {<<"NsAtWildcard", r.owner>>} ELSE {})
           \cup (IF r.owner # z.apex /\ ClassHasAddrs(z) THEN Deleg(z, LowerName(NameAt(r.raw, 0).name), r.owner, wide) ELSE {})
        ELSE {}
      \* validate() reads the name out of every NS and MX RDATA it looks at (classes with address records only) and
      \* gives up with InvalidRdata when one of them is not exactly a name (the zone API stores any octets)
      unreadable == ClassHasAddrs(z) /\ \E k \in 1..Len(z.recs) :
                      (z.recs[k].type = 2 /\ ~Valid(1, 2, z.recs[k].raw)) \/ (z.recs[k].type = 15 /\ ~Valid(1, 15, z.recs[k].raw))
  IN IF unreadable THEN [ok |-> FALSE, issues |-> {}]
     ELSE [ok |-> TRUE, issues |-> i1 \cup i2 \cup UNION {perRec(z.recs[k]) : k \in 1..Len(z.recs)}]

IsErrorKind(k) == k \notin {"MissingMxAddress", "NsAtWildcard"}
====
