---- MODULE Server ----
(* The total request oracle (DESIGN.md Appendix C), shaped after server/mod.rs:
   for EVERY octet string it prescribes either "no response" or an abstract
   response: RCODE, which property prescribes it, whether the question is echoed,
   whether an OPT is present, the size limit in force, the TSIG treatment, and
   (for answered queries) the resolver's sections. *)
EXTENDS Resolve, Tsig

\* what Reader::peek_rr / skip_rr accept: first owner chunk, 10 fixed octets, RDLENGTH inside the message
RRDelimit(req, c) ==
  LET ch == Chunk(req, c, 0) IN
  IF ch = 0 THEN [ok |-> FALSE]
  ELSE LET e == c + ch IN
    IF e + 10 > Len(req) THEN [ok |-> FALSE]
    ELSE LET rdl == U16(req, e + 8) IN
      IF e + 10 + rdl > Len(req) THEN [ok |-> FALSE]
      ELSE [ok |-> TRUE, ownerEnd |-> e, end |-> e + 10 + rdl, type |-> U16(req, e), class |-> U16(req, e + 2),
            ttlhi |-> U16(req, e + 4), ttllo |-> U16(req, e + 6), rdlen |-> rdl]

NoTsig == [mode |-> "none"]
NoAnswer == [st |-> "none"]

\* src names the property whose rule prescribes the RCODE
Out(rcode, src, edns, qecho, limit, tsig, ans) ==
  [kind |-> "resp", rcode |-> rcode, src |-> src, edns |-> edns, qecho |-> qecho, limit |-> limit,
   tsig |-> tsig, hasAns |-> ans.st # "none", ans |-> ans]

\* scan n answer/authority records starting at c: returns cursor or 0 (FORMERR)
RECURSIVE ScanPlain(_, _, _)
ScanPlain(req, c, n) ==
  IF n = 0 THEN c
  ELSE LET d == RRDelimit(req, c) IN
    IF ~d.ok \/ d.type \in {41, 250} THEN 0 ELSE ScanPlain(req, d.end, n - 1)

\* TSIG record at c (delimited as d), last in the additional section. keys = sequence of [name, alg, secret].
\* Result: [st |-> "formerr"] or [st |-> "unsigned", rcode, terr, ...] or [st |-> "badtime"|"ok", ...]
TsigCheck(req, c, d, keys, now) ==
  LET owner == DecodeName(req, c)
      f == TsigFields(SubSeq(req, d.ownerEnd + 11, d.end)) IN
  IF ~owner.ok \/ ~f.ok THEN [st |-> "formerr"]
  \* class must be ANY; the TTL is RFC 2181-clamped by the reader, so a TTL with the top bit set counts as 0
  ELSE IF d.class # 255 \/ (d.ttlhi < 32768 /\ (d.ttlhi # 0 \/ d.ttllo # 0)) THEN [st |-> "formerr"]
  ELSE LET keyname == LowerName(owner.name)
           alg == AlgOf(f.alg)
           cands == {i \in 1..Len(keys) : keys[i].name = keyname /\ keys[i].alg = alg}
           base == [keyname |-> keyname, f |-> f, alg |-> alg] IN
    IF alg = "unknown" \/ cands = {} THEN base @@ [st |-> "unsigned", rcode |-> 9, terr |-> 17]
    ELSE LET key == keys[CHOOSE i \in cands : TRUE]
             v == Verdict(alg, key.secret, Digest(0, req, c, keyname, f, <<>>), f, now)
             b2 == base @@ [secret |-> key.secret] IN
      IF v = "formerr" THEN b2 @@ [st |-> "unsigned", rcode |-> 1, terr |-> 16]
      ELSE IF v = "badsig" THEN b2 @@ [st |-> "unsigned", rcode |-> 9, terr |-> 16]
      ELSE IF v = "badtime" THEN b2 @@ [st |-> "badtime", rcode |-> 9, terr |-> 18]
      ELSE b2 @@ [st |-> "ok", rcode |-> 0, terr |-> 0]

\* scan additional records; returns [st |-> "ok"|"stop", cursor, edns, limit, rcode, src, tsig]
RECURSIVE ScanAdd(_, _, _, _, _, _, _, _, _, _)
ScanAdd(req, c, i, n, edns, limit, transport, payload, keys, now) ==
  IF i = n THEN [st |-> "ok", cursor |-> c, edns |-> edns, limit |-> limit, tsig |-> NoTsig]
  ELSE LET d == RRDelimit(req, c) IN
    IF ~d.ok THEN [st |-> "stop", rcode |-> 1, src |-> "C08", edns |-> edns, limit |-> limit, tsig |-> NoTsig]
    ELSE IF d.type = 41 THEN
      IF edns THEN [st |-> "stop", rcode |-> 1, src |-> "C08", edns |-> TRUE, limit |-> limit, tsig |-> NoTsig]
      ELSE LET owner == DecodeName(req, c)
               rdok == OptsOk(SubSeq(req, d.ownerEnd + 11, d.end), 0)
               lim == IF transport = "tcp" THEN limit
                      ELSE IF d.class < 512 THEN 512 ELSE IF d.class > payload THEN payload ELSE d.class
               version == d.ttlhi % 256          \* bits 23..16 of the raw 32-bit TTL
           IN
        IF ~owner.ok \/ ~rdok THEN [st |-> "stop", rcode |-> 1, src |-> "C08", edns |-> TRUE, limit |-> limit, tsig |-> NoTsig]
        ELSE IF owner.name # <<>> THEN [st |-> "stop", rcode |-> 1, src |-> "C09", edns |-> TRUE, limit |-> lim, tsig |-> NoTsig]
        ELSE IF version # 0 THEN [st |-> "stop", rcode |-> 16, src |-> "C09", edns |-> TRUE, limit |-> lim, tsig |-> NoTsig]
        ELSE ScanAdd(req, d.end, i + 1, n, TRUE, lim, transport, payload, keys, now)
    ELSE IF d.type = 250 THEN
      IF i # n - 1 THEN [st |-> "stop", rcode |-> 1, src |-> "C08", edns |-> edns, limit |-> limit, tsig |-> NoTsig]
      ELSE LET t == TsigCheck(req, c, d, keys, now) IN
        IF t.st = "formerr" THEN [st |-> "stop", rcode |-> 1, src |-> "C08", edns |-> edns, limit |-> limit, tsig |-> NoTsig]
        ELSE IF t.st = "ok" THEN [st |-> "ok", cursor |-> d.end, edns |-> edns, limit |-> limit, tsig |-> [mode |-> "signed"] @@ t]
        ELSE [st |-> "stop", rcode |-> t.rcode, src |-> "C10", edns |-> edns, limit |-> limit,
              tsig |-> [mode |-> IF t.st = "badtime" THEN "signed" ELSE "unsigned"] @@ t]
    ELSE ScanAdd(req, d.end, i + 1, n, edns, limit, transport, payload, keys, now)

\* cfg == [cat, payload, keys]; now = the second the server's clock shows (only used by TSIG)
Respond(req, transport, cfg, now) ==
  IF Len(req) < 12 \/ At(req, 2) >= 128 THEN [kind |-> "none"]
  ELSE LET qd == U16(req, 4)
           limit0 == IF transport = "tcp" THEN 65535 ELSE 512
           opcode == (At(req, 2) \div 8) % 16 IN
    IF qd > 1 THEN [kind |-> "none"]
    ELSE LET q == IF qd = 1 THEN DecodeName(req, 12) ELSE [ok |-> TRUE, first |-> 0, name |-> <<>>]
             qok == q.ok /\ (qd = 0 \/ 12 + q.first + 4 <= Len(req)) IN
      IF ~qok THEN Out(1, "C08", FALSE, FALSE, limit0, NoTsig, NoAnswer)
      ELSE LET c0 == IF qd = 1 THEN 12 + q.first + 4 ELSE 12
               c1 == ScanPlain(req, c0, U16(req, 6) + U16(req, 8)) IN
        IF c1 = 0 THEN Out(1, "C08", FALSE, qd = 1, limit0, NoTsig, NoAnswer)
        ELSE LET s == ScanAdd(req, c1, 0, U16(req, 10), FALSE, limit0, transport, cfg.payload, cfg.keys, now) IN
          IF s.st = "stop" THEN Out(s.rcode, s.src, s.edns, qd = 1, s.limit, s.tsig, NoAnswer)
          ELSE IF s.cursor # Len(req) THEN Out(1, "C08", s.edns, qd = 1, s.limit, s.tsig, NoAnswer)
          ELSE IF opcode # 0 THEN Out(4, "C07", s.edns, qd = 1, s.limit, s.tsig, NoAnswer)
          ELSE IF qd = 0 THEN Out(1, "C08", s.edns, FALSE, s.limit, s.tsig, NoAnswer)
          ELSE LET a == Answer(cfg.cat, LowerName(q.name), U16(req, 12 + q.first), U16(req, 12 + q.first + 2), "min") IN
               Out(a.rcode, IF "disp" \in DOMAIN a THEN "C07" ELSE "C05", s.edns, TRUE, s.limit, s.tsig, a)

\* does the request contain a TSIG record that processing can reach (so that `now` matters)?
MentionsTsig(req) == \E i \in 0..(Len(req) - 2) : At(req, i) = 0 /\ At(req, i + 1) = 250
====
