---- MODULE ZoneFile ----
(* RFC 1035 section 5 master files as quandary's zone_file module reads them.

   Layer 1, the context machine (zone_file/mod.rs `Context`, zone_file/record.rs): origin,
   previous owner, previous TTL, previous class, $TTL default and a physical line counter,
   run over *abstract lines* (a directive, a blank/comment line, or a record whose fields are
   given by their presentation form). A record yields (owner, TTL, class, type, RDATA, first
   physical line).
   Layer 2, $INCLUDE, in two shapes:
     - `Drive`: implementation shaped (zone_file/fs/mod.rs): a stack of per-file parsers, each with
       its own context; an $INCLUDE pushes a parser created by new_for_include (the includer's
       context, origin overridden when the directive has one); at end of file the parser is
       popped and the includer takes the included file's context except for its own origin
       (update_context_from_include); depth limit, missing files;
     - `RunFlat(FlattenTree(..))`: declarative: the file with every $INCLUDE textually replaced by the
       included file's lines between an origin save and an origin restore.
     MC_ZoneFile checks that both agree on all small trees; trace validation uses `Drive`.
   Layer 3, `YieldOk`: what any input may yield (C24).

   Abstract items (records with explicit has-flags instead of optional fields):
     [k |-> "origin", name, nl]   [k |-> "ttl", v, nl]   [k |-> "blank", nl]
     [k |-> "include", file, horigin, origin, nl]
     [k |-> "rec", owner |-> [form, labels, name], httl, ttl, hclass, class, type, rdata, nl]
   Names are wire-form octet sequences; nl = number of physical lines the item occupies. *)
EXTENDS Naturals, Sequences, FiniteSets, TLC

RECURSIVE FlattenSeq(_)
FlattenSeq(ss) == IF ss = <<>> THEN <<>> ELSE Head(ss) \o FlattenSeq(Tail(ss))
WireOfLabels(ls) == FlattenSeq([i \in 1..Len(ls) |-> <<Len(ls[i])>> \o ls[i]])

\* optional values (TLC refuses to compare values of different kinds)
No == [has |-> FALSE]
Some(x) == [has |-> TRUE, v |-> x]
Ctx0 == [origin |-> No, owner |-> No, ttl |-> No, class |-> No, dttl |-> No]

OwnerOf(c, f) ==
  IF f.form = "blank" THEN c.owner
  ELSE IF f.form = "at" THEN c.origin
  ELSE IF f.form = "rel" THEN (IF ~c.origin.has THEN No ELSE Some(WireOfLabels(f.labels) \o c.origin.v))
  ELSE Some(f.name)

\* one non-include item: [ctx, out (<<>> or <<record>>), ok]
ApplyItem(c, it, file, line) ==
  IF it.k = "origin" THEN [ctx |-> [c EXCEPT !.origin = Some(it.name)], out |-> <<>>, ok |-> TRUE]
  ELSE IF it.k = "ttl" THEN [ctx |-> [c EXCEPT !.dttl = Some(it.v)], out |-> <<>>, ok |-> TRUE]
  ELSE IF it.k = "blank" THEN [ctx |-> c, out |-> <<>>, ok |-> TRUE]
  ELSE LET owner == OwnerOf(c, it.owner)
           \* an explicit TTL wins, then the $TTL default, then the previous record's TTL
           ttl == IF it.httl THEN Some(it.ttl) ELSE IF c.dttl.has THEN c.dttl ELSE c.ttl
           class == IF it.hclass THEN Some(it.class) ELSE c.class IN
       IF ~owner.has \/ ~ttl.has \/ ~class.has THEN [ctx |-> c, out |-> <<>>, ok |-> FALSE]
       ELSE [ctx |-> [c EXCEPT !.owner = owner, !.ttl = ttl, !.class = class],
             out |-> <<[file |-> file, line |-> line, owner |-> owner.v, ttl |-> ttl.v, class |-> class.v,
                        type |-> it.type, rdata |-> it.rdata]>>,
             ok |-> TRUE]

\* ---------------------------------------------------------------- a single file without includes (C23)
RECURSIVE RunFile(_, _, _, _, _)
RunFile(c, items, i, line, out) ==       \* [out, ok]
  IF i > Len(items) THEN [out |-> out, ok |-> TRUE]
  ELSE LET a == ApplyItem(c, items[i], 0, line) IN
       IF ~a.ok THEN [out |-> out, ok |-> FALSE]
       ELSE RunFile(a.ctx, items, i + 1, line + items[i].nl, out \o a.out)

\* ---------------------------------------------------------------- the include stack (zone_file/fs/mod.rs)
\* files: sequence of [items]; file index f is files[f + 1]; an include of an index >= Len(files) is a missing file.
\* frame == [file, i, line, ctx]
RECURSIVE Drive(_, _, _, _)
Drive(files, maxDepth, stack, out) ==     \* [out, err]
  IF stack = <<>> THEN [out |-> out, err |-> FALSE]
  ELSE LET n == Len(stack)
           top == stack[n]
           items == files[top.file + 1].items IN
    IF top.i > Len(items) THEN
       \* end of file: pop; the includer continues with the included file's context but its own origin
       IF n = 1 THEN [out |-> out, err |-> FALSE]
       ELSE LET parent == stack[n - 1]
                rest == [SubSeq(stack, 1, n - 1) EXCEPT ![n - 1].ctx = [top.ctx EXCEPT !.origin = parent.ctx.origin]] IN
            Drive(files, maxDepth, rest, out)
    ELSE LET it == items[top.i]
             advanced == [stack EXCEPT ![n].i = @ + 1, ![n].line = @ + it.nl] IN
      IF it.k = "include" THEN
         IF n - 1 >= maxDepth \/ it.file >= Len(files) THEN [out |-> out, err |-> TRUE]      \* too deep / cannot open
         ELSE LET childCtx == IF it.horigin THEN [top.ctx EXCEPT !.origin = Some(it.origin)] ELSE top.ctx IN
              Drive(files, maxDepth, Append(advanced, [file |-> it.file, i |-> 1, line |-> 1, ctx |-> childCtx]), out)
      ELSE LET a == ApplyItem(top.ctx, it, top.file, top.line) IN
           IF ~a.ok THEN [out |-> out, err |-> TRUE]
           ELSE Drive(files, maxDepth, [advanced EXCEPT ![n].ctx = a.ctx], out \o a.out)
ParseTree(files, maxDepth) == Drive(files, maxDepth, <<[file |-> 0, i |-> 1, line |-> 1, ctx |-> Ctx0]>>, <<>>)

\* ---------------------------------------------------------------- textual inclusion (the statement of C25)
\* Every item is annotated with its file and first line; an include becomes  save [origin] child... restore.
RECURSIVE FlattenTree(_, _, _, _, _, _)
FlattenTree(files, maxDepth, f, depth, i, line) ==
  LET items == files[f + 1].items IN
  IF i > Len(items) THEN <<>>
  ELSE LET it == items[i]
           rest == FlattenTree(files, maxDepth, f, depth, i + 1, line + it.nl) IN
    IF it.k # "include" THEN <<[it |-> it, file |-> f, line |-> line, m |-> "item"]>> \o rest
    ELSE IF depth >= maxDepth \/ it.file >= Len(files) THEN <<[m |-> "error"]>>
    ELSE <<[m |-> "save", horigin |-> it.horigin, origin |-> it.origin]>>
         \o FlattenTree(files, maxDepth, it.file, depth + 1, 1, 1)
         \o <<[m |-> "restore"]>> \o rest

RECURSIVE RunFlat(_, _, _, _, _)
RunFlat(c, saved, flat, i, out) ==        \* saved: stack of origins; [out, err]
  IF i > Len(flat) THEN [out |-> out, err |-> FALSE]
  ELSE LET x == flat[i] IN
    IF x.m = "error" THEN [out |-> out, err |-> TRUE]
    ELSE IF x.m = "save" THEN
         RunFlat(IF x.horigin THEN [c EXCEPT !.origin = Some(x.origin)] ELSE c, Append(saved, c.origin), flat, i + 1, out)
    ELSE IF x.m = "restore" THEN
         RunFlat([c EXCEPT !.origin = saved[Len(saved)]], SubSeq(saved, 1, Len(saved) - 1), flat, i + 1, out)
    ELSE LET a == ApplyItem(c, x.it, x.file, x.line) IN
         IF ~a.ok THEN [out |-> out, err |-> TRUE]
         ELSE RunFlat(a.ctx, saved, flat, i + 1, out \o a.out)
ParseFlat(files, maxDepth) == RunFlat(Ctx0, <<>>, FlattenTree(files, maxDepth, 0, 0, 1, 1), 1, <<>>)
====
