---- MODULE Tsig ----
(* RFC 8945: TSIG RDATA layout, digest composition for requests, responses and
   subsequent messages, and the verification order of message/tsig.rs +
   server/mod.rs. 48-bit times are kept as three 16-bit words (TLC integers are
   32-bit). *)
EXTENDS Wire, Crypto

\* TSIG RDATA fields: alg name | time48 | fudge16 | macsize16 | mac | origid16 | error16 | otherlen16 | other
TsigFields(rd) ==
  LET a == Unc(rd, 0) IN
  IF ~a.ok \/ a.len + 10 > Len(rd) THEN [ok |-> FALSE]
  ELSE LET o == a.len
           ms == U16(rd, o + 8) IN
    IF o + 16 + ms > Len(rd) THEN [ok |-> FALSE]
    ELSE LET ol == U16(rd, o + 14 + ms) IN
      IF o + 16 + ms + ol # Len(rd) THEN [ok |-> FALSE]
      ELSE [ok |-> TRUE, alg |-> LowerName(a.name),
            timehi |-> U16(rd, o), tmid |-> U16(rd, o + 2), tlo |-> U16(rd, o + 4),
            time48 |-> SubSeq(rd, o + 1, o + 6),
            fudge |-> U16(rd, o + 6), mac |-> SubSeq(rd, o + 11, o + 10 + ms),
            origid |-> SubSeq(rd, o + 11 + ms, o + 12 + ms), error |-> U16(rd, o + 12 + ms),
            other |-> SubSeq(rd, o + 17 + ms, Len(rd))]

HmacSha1 == <<<<104,109,97,99,45,115,104,97,49>>>>           \* "hmac-sha1"
HmacSha256 == <<<<104,109,97,99,45,115,104,97,50,53,54>>>>  \* "hmac-sha256"
AlgOf(name) == IF name = HmacSha1 THEN "sha1" ELSE IF name = HmacSha256 THEN "sha256" ELSE "unknown"
OutLen(alg) == IF alg = "sha1" THEN 20 ELSE 32
MinMacLen(alg) == IF OutLen(alg) \div 2 > 10 THEN OutLen(alg) \div 2 ELSE 10
MacLenOk(alg, mac) == Len(mac) <= OutLen(alg) /\ Len(mac) >= MinMacLen(alg)

\* RFC 8945 4.3.2 / 4.3.3: message with original ID and ARCOUNT-1, then the TSIG variables
TsigVars(keyname, f, error, other) ==
  WireOf(keyname) \o <<0, 255, 0, 0, 0, 0>> \o WireOf(f.alg) \o f.time48 \o U16Be(f.fudge) \o U16Be(error) \o U16Be(Len(other)) \o other
ModMsg(msg, upto, origid) ==
  origid \o SubSeq(msg, 3, 10) \o U16Be(U16(msg, 10) - 1) \o SubSeq(msg, 13, upto)
Timers(f) == f.time48 \o U16Be(f.fudge)

\* 48-bit times as three 16-bit words [hi, mid, lo]; |a - b| <= fudge (fudge < 2^16) without leaving 32-bit integers
Words(n) == [hi |-> 0, mid |-> n \div 65536, lo |-> n % 65536]          \* n < 2^31
Geq48(a, b) == a.hi > b.hi \/ (a.hi = b.hi /\ (a.mid > b.mid \/ (a.mid = b.mid /\ a.lo >= b.lo)))
Diff48(a, b) ==      \* a >= b; exact when below 2^17, otherwise some value > 65535
  IF a.hi = b.hi /\ a.mid = b.mid THEN a.lo - b.lo
  ELSE IF (a.hi = b.hi /\ a.mid = b.mid + 1) \/ (a.hi = b.hi + 1 /\ a.mid = 0 /\ b.mid = 65535) THEN 65536 + a.lo - b.lo
  ELSE 131072
Within48(a, b, fudge) == IF Geq48(a, b) THEN Diff48(a, b) <= fudge ELSE Diff48(b, a) <= fudge
TimeOkW(f, nw) == Within48([hi |-> f.timehi, mid |-> f.tmid, lo |-> f.tlo], nw, f.fudge)
TimeOk(f, now) == TimeOkW(f, Words(now))
\* a 48-bit time field that denotes a second in [t0, t1]
NowIn(t48, t0, t1) == t48[1] = 0 /\ t48[2] = 0 /\ t48[3] < 128 /\
                      LET v == (t48[3] * 256 + t48[4]) * 65536 + t48[5] * 256 + t48[6] IN v >= t0 /\ v <= t1

\* mode 0 = request, 1 = response (prior = request MAC), 2 = subsequent (prior MAC, timers only)
Digest(mode, msg, tstart, keyname, f, prior) ==
  LET pre == IF mode = 0 THEN <<>> ELSE U16Be(Len(prior)) \o prior
      body == ModMsg(msg, tstart, f.origid) IN
  IF mode = 2 THEN pre \o body \o Timers(f)
  ELSE pre \o body \o TsigVars(keyname, f, f.error, f.other)

\* the verdict of tsig.rs verify_* once algorithm and key are known
VerdictW(alg, secret, digest, f, nw) ==
  LET full == HMAC(alg, secret, digest) IN
  IF ~MacLenOk(alg, f.mac) THEN "formerr"
  ELSE IF SubSeq(full, 1, Len(f.mac)) # f.mac THEN "badsig"
  ELSE IF ~TimeOkW(f, nw) THEN "badtime" ELSE "ok"
Verdict(alg, secret, digest, f, now) == VerdictW(alg, secret, digest, f, Words(now))
====
