---- MODULE Tsig ----
(* RFC 8945: TSIG RDATA layout, digest composition for requests, responses and
   subsequent messages, and the verification order of message/tsig.rs +
   server/mod.rs. 48-bit times are kept as three 16-bit words (TLC integers are
   32-bit). *)
EXTENDS Wire, Crypto

\* TSIG RDATA fields: alg name | time48 | fudge16 | macsize16 | mac | origid16 | error16 | otherlen16 | other
TsigFields(rd) ==
  LET a == Unc(rd, 0) IN
  IF ~a.ok \/ a.len + 10 > Len(rd) THEN [ok |-> FALSE]
  ELSE LET o == a.len
           ms == U16(rd, o + 8) IN
    IF o + 16 + ms > Len(rd) THEN [ok |-> FALSE]
    ELSE LET ol == U16(rd, o + 14 + ms) IN
      IF o + 16 + ms + ol # Len(rd) THEN [ok |-> FALSE]
      ELSE [ok |-> TRUE, alg |-> LowerName(a.name),
            timehi |-> U16(rd, o), tmid |-> U16(rd, o + 2), tlo |-> U16(rd, o + 4),
            time48 |-> SubSeq(rd, o + 1, o + 6),
            fudge |-> U16(rd, o + 6), mac |-> SubSeq(rd, o + 11, o + 10 + ms),
            origid |-> SubSeq(rd, o + 11 + ms, o + 12 + ms), error |-> U16(rd, o + 12 + ms),
            other |-> SubSeq(rd, o + 17 + ms, Len(rd))]

HmacSha1 == <<<<104,109,97,99,45,115,104,97,49>>>>           \* "hmac-sha1"
HmacSha256 == <<<<104,109,97,99,45,115,104,97,50,53,54>>>>  \* "hmac-sha256"
AlgOf(name) == IF name = HmacSha1 THEN "sha1" ELSE IF name = HmacSha256 THEN "sha256" ELSE "unknown"
OutLen(alg) == IF alg = "sha1" THEN 20 ELSE 32
MinMacLen(alg) == IF OutLen(alg) \div 2 > 10 THEN OutLen(alg) \div 2 ELSE 10
MacLenOk(alg, mac) == Len(mac) <= OutLen(alg) /\ Len(mac) >= MinMacLen(alg)

\* RFC 8945 4.3.2 / 4.3.3: message with original ID and ARCOUNT-1, then the TSIG variables
TsigVars(keyname, f, error, other) ==
  WireOf(keyname) \o <<0, 255, 0, 0, 0, 0>> \o WireOf(f.alg) \o f.time48 \o U16Be(f.fudge) \o U16Be(error) \o U16Be(Len(other)) \o other
ModMsg(msg, upto, origid) ==
  origid \o SubSeq(msg, 3, 10) \o U16Be(U16(msg, 10) - 1) \o SubSeq(msg, 13, upto)
Timers(f) == f.time48 \o U16Be(f.fudge)

Abs(a, b) == IF a >= b THEN a - b ELSE b - a
\* now < 2^31 and fudge < 2^16, so any signing time >= 2^31 is outside the window
TimeOk(f, now) == f.timehi = 0 /\ f.tmid < 32768 /\ Abs(now, f.tmid * 65536 + f.tlo) <= f.fudge
\* a 48-bit time field that denotes a second in [t0, t1]
NowIn(t48, t0, t1) == t48[1] = 0 /\ t48[2] = 0 /\ t48[3] < 128 /\
                      LET v == (t48[3] * 256 + t48[4]) * 65536 + t48[5] * 256 + t48[6] IN v >= t0 /\ v <= t1

\* mode 0 = request, 1 = response (prior = request MAC), 2 = subsequent (prior MAC, timers only)
Digest(mode, msg, tstart, keyname, f, prior) ==
  LET pre == IF mode = 0 THEN <<>> ELSE U16Be(Len(prior)) \o prior
      body == ModMsg(msg, tstart, f.origid) IN
  IF mode = 2 THEN pre \o body \o Timers(f)
  ELSE pre \o body \o TsigVars(keyname, f, f.error, f.other)

\* the verdict of tsig.rs verify_* once algorithm and key are known
Verdict(alg, secret, digest, f, now) ==
  LET full == HMAC(alg, secret, digest) IN
  IF ~MacLenOk(alg, f.mac) THEN "formerr"
  ELSE IF SubSeq(full, 1, Len(f.mac)) # f.mac THEN "badsig"
  ELSE IF ~TimeOk(f, now) THEN "badtime" ELSE "ok"
====
