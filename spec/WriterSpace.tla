---- MODULE WriterSpace ----
(* message/writer.rs: the space accounting of a Writer, one action per public operation that moves
   one of the four numbers it keeps:

     cursor     end of what has been written
     available  cursor may grow up to here (limit minus the space reserved for OPT and TSIG)
     limit      the size the finished message may have (never above the buffer's length)
     rrstart    end of the question section (where clear_rrs returns to)

   Sizes are abstract: a question or record is its number of octets (the records the replay uses
   cannot be compressed, so the size is exact). The properties behind C04, C09, C10 and C12 that rest
   on this arithmetic: a finished message never exceeds the limit in force; whatever was reserved for
   OPT and TSIG is there when finish() writes them, and is used exactly; a failed operation changes
   nothing; clear_rrs gives back what the records took and nothing of what is reserved.

   Variant "impl" is the code as it stands. The other variants are realistic slips, each of which must
   violate an invariant (MC_WriterSpace_<variant>.cfg):
     "limit_ignores_reserved"  set_limit clamps a lowered limit to the cursor only
     "edns_no_check"           set_edns reserves without checking that eleven octets are left
     "clear_returns_reserved"  clear_rrs resets available to the limit
     "template_keeps_limit"    try_from_template keeps the template's limit although the new buffer is smaller
     "tsig_compressed"         finish() writes a TSIG record shorter than what was reserved (the state of
                               the code before repair #16: owner compressed, reservation for the full name) *)
EXTENDS Naturals, Sequences
CONSTANTS BufLen, QSizes, RSizes, TsigLens, Limits, Bufs, Variant
Header == 12
Opt == 11

VARIABLES cursor, avail, limit, rrstart, edns, tsig, nrr, fin, last, buf
vars == <<cursor, avail, limit, rrstart, edns, tsig, nrr, fin, last, buf>>
\* buf = length of the buffer the writer currently writes into (BufLen at first; Retemplate moves it)
\* fin = 0 while the writer is open, else the length finish() returned; tsig = 0 or the reserved length;
\* nrr = records written since the last clear (only "are there any": questions must come first);
\* last = outcome of the latest operation ("ok" / "Truncation" / "Already" / "OutOfOrder"), for the replay

Min(a, b) == IF a < b THEN a ELSE b
Max(a, b) == IF a > b THEN a ELSE b
Reserved == (IF edns THEN Opt ELSE 0) + tsig

New(l) ==        \* Writer::new(buffer, l): every behaviour starts with it
  /\ Min(l, BufLen) >= Header
  /\ cursor = Header /\ avail = Min(l, BufLen) /\ limit = Min(l, BufLen) /\ rrstart = Header
  /\ edns = FALSE /\ tsig = 0 /\ nrr = 0 /\ fin = 0 /\ last = "ok" /\ buf = BufLen
\* (the model starts from a Writer over the whole buffer; Writer::new(buffer, l) = that followed by SetLimit(l))
Init == New(BufLen)

Open == fin = 0

AddQuestion(sz) ==
  /\ Open
  /\ IF nrr > 0 THEN last' = "OutOfOrder" /\ UNCHANGED <<cursor, rrstart>>
     ELSE IF cursor + sz > avail THEN last' = "Truncation" /\ UNCHANGED <<cursor, rrstart>>
     ELSE cursor' = cursor + sz /\ rrstart' = cursor + sz /\ last' = "ok"
  /\ UNCHANGED <<avail, limit, edns, tsig, nrr, fin, buf>>

AddRR(sz) ==
  /\ Open
  /\ IF cursor + sz > avail THEN last' = "Truncation" /\ UNCHANGED <<cursor, nrr>>
     ELSE cursor' = cursor + sz /\ nrr' = 1 /\ last' = "ok"
  /\ UNCHANGED <<avail, limit, rrstart, edns, tsig, fin, buf>>

SetLimit(n) ==
  /\ Open /\ last' = "ok"
  /\ IF n >= limit
     THEN LET nl == Min(n, buf) IN limit' = nl /\ avail' = avail + (nl - limit)
     ELSE LET floor == IF Variant = "limit_ignores_reserved" THEN cursor ELSE cursor + (limit - avail)
              nl == Max(n, floor) IN
          limit' = nl /\ avail' = IF limit - nl > avail THEN 0 ELSE avail - (limit - nl)
  /\ UNCHANGED <<cursor, rrstart, edns, tsig, nrr, fin, buf>>

SetEdns ==
  /\ Open
  /\ IF edns THEN last' = "Already" /\ UNCHANGED <<avail, edns>>
     ELSE IF Variant # "edns_no_check" /\ cursor + Opt > avail THEN last' = "Truncation" /\ UNCHANGED <<avail, edns>>
     ELSE avail' = (IF avail >= Opt THEN avail - Opt ELSE 0) /\ edns' = TRUE /\ last' = "ok"
  /\ UNCHANGED <<cursor, limit, rrstart, tsig, nrr, fin, buf>>

SetTsig(t) ==
  /\ Open
  /\ IF tsig > 0 THEN last' = "Already" /\ UNCHANGED <<avail, tsig>>
     ELSE IF cursor + t > avail THEN last' = "Truncation" /\ UNCHANGED <<avail, tsig>>
     ELSE avail' = avail - t /\ tsig' = t /\ last' = "ok"
  /\ UNCHANGED <<cursor, limit, rrstart, edns, nrr, fin, buf>>

Clear ==
  /\ Open /\ last' = "ok"
  /\ cursor' = rrstart /\ nrr' = 0
  /\ avail' = IF Variant = "clear_returns_reserved" THEN limit ELSE avail
  /\ UNCHANGED <<limit, rrstart, edns, tsig, fin, buf>>

\* into_template() followed by try_from_template() into a buffer of b octets: the message so far and the reservations
\* move over; a buffer that cannot hold them is refused (the writer then lives on in a buffer of the old size, which
\* changes nothing); a buffer smaller than the limit lowers the limit to its size
Retemplate(b) ==
  /\ Open
  /\ IF b < cursor + (limit - avail) THEN last' = "Truncation" /\ UNCHANGED <<limit, avail, buf>>
     ELSE LET nl == IF Variant = "template_keeps_limit" THEN limit ELSE Min(limit, b) IN
          limit' = nl /\ avail' = Min(limit, b) - (limit - avail) /\ buf' = b /\ last' = "ok"
  /\ UNCHANGED <<cursor, rrstart, edns, tsig, nrr, fin>>

Finish ==
  /\ Open /\ last' = "ok"
  /\ fin' = cursor + (IF edns THEN Opt ELSE 0)
            + (IF tsig > 0 /\ Variant = "tsig_compressed" THEN tsig - 2 ELSE tsig)
  /\ UNCHANGED <<cursor, avail, limit, rrstart, edns, tsig, nrr, buf>>

Next == \/ \E sz \in QSizes : AddQuestion(sz)
        \/ \E sz \in RSizes : AddRR(sz)
        \/ \E n \in Limits : SetLimit(n)
        \/ SetEdns
        \/ \E t \in TsigLens : SetTsig(t)
        \/ Clear
        \/ \E b \in Bufs : Retemplate(b)
        \/ Finish
Spec == Init /\ [][Next]_vars

\* ---- invariants
Ordered == Header <= rrstart /\ rrstart <= cursor /\ cursor <= avail /\ avail <= limit /\ limit <= buf
ReservedKept == limit - avail = Reserved                 \* what was reserved stays reserved (set_limit, clear_rrs)
FinishedFits == fin > 0 => fin <= limit                  \* C04 / C12: the finished message respects the limit in force
ReservedUsedExactly == fin > 0 => fin = cursor + Reserved   \* #16: nothing reserved is left over (no truncation for nothing)
\* a failed operation changes nothing
FailureIsNoop == [][last' # "ok" => UNCHANGED <<cursor, avail, limit, rrstart, edns, tsig, nrr, fin, buf>>]_vars
====
