---- MODULE Codes ----
(* TYPE / CLASS / QTYPE / QCLASS mnemonics (RFC 1035 3.2.2-3.2.5, RFC 3596, RFC 2782,
   RFC 6891, RFC 8945, RFC 1995, RFC 2136) and the RFC 3597 section 5 generic forms
   TYPEnnn / CLASSnnn. Text is a sequence of octets. *)
EXTENDS Bytes

TypeTable == { <<"A", 1>>, <<"NS", 2>>, <<"MD", 3>>, <<"MF", 4>>, <<"CNAME", 5>>, <<"SOA", 6>>, <<"MB", 7>>, <<"MG", 8>>,
               <<"MR", 9>>, <<"NULL", 10>>, <<"WKS", 11>>, <<"PTR", 12>>, <<"HINFO", 13>>, <<"MINFO", 14>>, <<"MX", 15>>,
               <<"TXT", 16>>, <<"AAAA", 28>>, <<"SRV", 33>>, <<"OPT", 41>>, <<"TSIG", 250>> }
QtypeOnly == { <<"IXFR", 251>>, <<"AXFR", 252>>, <<"MAILB", 253>>, <<"MAILA", 254>>, <<"ANY", 255>>, <<"*", 255>> }
ClassTable == { <<"IN", 1>>, <<"CH", 3>>, <<"HS", 4>> }
QclassOnly == { <<"NONE", 254>>, <<"ANY", 255>>, <<"*", 255>> }

Table(kind) == CASE kind = "TYPE" -> TypeTable
                 [] kind = "QTYPE" -> TypeTable \cup QtypeOnly
                 [] kind = "CLASS" -> ClassTable
                 [] kind = "QCLASS" -> ClassTable \cup QclassOnly
Prefix(kind) == IF kind \in {"TYPE", "QTYPE"} THEN Octets("TYPE") ELSE Octets("CLASS")

RECURSIVE Dec(_)
Dec(n) == IF n < 10 THEN <<48 + n>> ELSE Dec(n \div 10) \o <<48 + (n % 10)>>

\* decimal number of at most 5 digits (a leading '+' is what Rust's u16 parser also accepts); -1 if not a u16
RECURSIVE DecVal(_, _)
DecVal(t, acc) == IF t = <<>> THEN acc
                  ELSE IF t[1] < 48 \/ t[1] > 57 \/ acc > 6553 THEN -1
                  ELSE LET v == acc * 10 + (t[1] - 48) IN IF v > 65535 THEN -1 ELSE DecVal(Tail(t), v)
ParseU16(t) == LET u == IF t # <<>> /\ t[1] = 43 THEN Tail(t) ELSE t IN
               IF u = <<>> \/ Len(u) > 12 THEN -1 ELSE DecVal(u, 0)

\* Display: the mnemonic of the value in the kind's table (255 is rendered "*" as in
\* RFC 1035 3.2.3 / 3.2.5; "ANY" is accepted on input only), else the generic form
Display(kind, v) ==
  LET ms == {m \in Table(kind) : m[2] = v /\ m[1] # "ANY"} IN
  IF ms # {} THEN Octets((CHOOSE m \in ms : TRUE)[1]) ELSE Prefix(kind) \o Dec(v)

\* Parse: mnemonics caseless, then the caseless generic prefix followed by a u16; -1 = error
Parse(kind, text) ==
  LET up == UpperSeq(text)
      ms == {m \in Table(kind) : Octets(m[1]) = up}
      pl == Len(Prefix(kind)) IN
  IF ms # {} THEN (CHOOSE m \in ms : TRUE)[2]
  ELSE IF Len(text) >= pl /\ SubSeq(up, 1, pl) = Prefix(kind) THEN ParseU16(SubSeq(text, pl + 1, Len(text)))
  ELSE -1
====
