---- MODULE Rrl ----
(* Response rate limiting (server/rrl.rs).

   Declarative side (what C26-C28 state): a stream of equivalent responses owns a token
   bucket of capacity rate x window; every whole second since the bucket was last topped up
   returns `rate` tokens; a response is sent while a token is left, otherwise it is limited:
   dropped (slip 0), slipped (slip 1), or either (slip >= 2).
   Streams (C27): masked source prefix (IPv4-mapped IPv6 counts as IPv4; IPv6 uses the top 64
   bits) x category (NOERROR / NXDOMAIN / other); NOERROR streams are further split by QNAME
   (case-insensitive) or wildcard source of synthesis. TCP and non-QUERY opcodes are exempt.

   Implementation side: a bucket stores `count` (tokens used) and `last_refill`; on a hit,
   if at least one second has passed: count := count -. rate * whole_seconds (saturating) and
   last_refill advances by exactly those whole seconds. The unrepaired code computed the
   product in 32 bits ("as_found": wraps without overflow checks, panics with them). *)
EXTENDS Naturals, Sequences, FiniteSets

\* count -. rate * secs without leaving TLC's 32-bit integers (division first)
Refill(count, rate, secs) == IF secs >= (count + rate - 1) \div rate THEN 0 ELSE count - rate * secs
\* one response through a bucket whose entry exists: [count, send]
BucketStep(count, rate, window, secs) ==
  LET c1 == Refill(count, rate, secs) IN
  IF c1 >= rate * window THEN [count |-> c1, send |-> FALSE] ELSE [count |-> c1 + 1, send |-> TRUE]

Category(rcode) == IF rcode = 0 THEN 0 ELSE IF rcode = 3 THEN 1 ELSE 2

\* ---- destination prefix
MaskOctet(o, bits) == IF bits >= 8 THEN o ELSE IF bits <= 0 THEN 0 ELSE (o \div (2 ^ (8 - bits))) * (2 ^ (8 - bits))
Masked(octs, plen) == [i \in 1..Len(octs) |-> MaskOctet(octs[i], plen - 8 * (i - 1))]
IsMapped(src) == Len(src) = 16 /\ (\A i \in 1..10 : src[i] = 0) /\ src[11] = 255 /\ src[12] = 255
\* the eight octets of Key.dest and the address-family flag for a source address (4 or 16 octets)
Dest(src, p4, p6) ==
  LET v4 == IF Len(src) = 4 THEN src ELSE IF IsMapped(src) THEN SubSeq(src, 13, 16) ELSE <<>> IN
  IF v4 # <<>> THEN [ipv6 |-> 0, d |-> <<0, 0, 0, 0>> \o Masked(v4, p4)]
  ELSE [ipv6 |-> 1, d |-> Masked(SubSeq(src, 1, 8), p6)]

\* whole seconds from (s1,u1) to (s2,u2); times are (seconds, microseconds) pairs; 0 if not later
Elapsed(s2, u2, s1, u1) == IF s2 < s1 \/ (s2 = s1 /\ u2 < u1) THEN 0 ELSE IF u2 >= u1 THEN s2 - s1 ELSE s2 - s1 - 1
====
