---- MODULE Catalog ----
(* The zone catalog (db/catalog.rs, db/hash_map_tree/catalog.rs, db/single_zone_catalog.rs).

   Declarative side (what C22 states): a finite map from (class, name) to an entry;
   lookup = the entry of that class whose name is the longest suffix of the queried name,
   get = the entry with exactly that name, iteration = exactly the current entries.

   Implementation side: one tree of nodes per class (`roots_by_class`); a node exists for
   every suffix of every inserted name (get_or_create_descendant), carries optional data,
   and remove_in_class prunes childless nodes on the way back up. The unrepaired code pruned
   a node as soon as it had no children left, even when it still carried an entry ("as_found");
   the repaired code keeps nodes with data ("fixed").

   Names are sequences of labels, leaf first (as in Names.tla); None marks "no entry". *)
EXTENDS Naturals, Sequences, FiniteSets

None == 0                 \* entries are positive integers (a kind or a generation stamp)
Sfx(n, k) == SubSeq(n, Len(n) - k + 1, Len(n))            \* the k rightmost labels
Suffixes(n) == {Sfx(n, k) : k \in 0..Len(n)}
Parent(n) == SubSeq(n, 2, Len(n))

\* ---------------------------------------------------------------- declarative map
MapEmpty == [k \in {} |-> None]
MapGet(m, k) == IF k \in DOMAIN m THEN m[k] ELSE None
MapInsert(m, k, v) == [x \in DOMAIN m \cup {k} |-> IF x = k THEN v ELSE m[x]]
MapRemove(m, k) == [x \in DOMAIN m \ {k} |-> m[x]]
\* <<name>> of the longest-suffix entry of class c for the queried name, or <<>>
MapLookupName(m, c, name) ==
  LET cands == {k \in DOMAIN m : k[1] = c /\ k[2] \in Suffixes(name)} IN
  IF cands = {} THEN <<>> ELSE <<(CHOOSE k \in cands : \A j \in cands : Len(j[2]) <= Len(k[2]))[2]>>

\* ---------------------------------------------------------------- implementation: one tree per class
\* tree == [nodes |-> set of names, data |-> [nodes -> value or None]]; nodes = {} : the class has no root
TreeEmpty == [nodes |-> {}, data |-> [n \in {} |-> None]]
Children(ns, x) == {y \in ns : Len(y) = Len(x) + 1 /\ Parent(y) = x}

TreeInsert(t, n, v) ==
  LET ns == t.nodes \cup Suffixes(n) IN
  [nodes |-> ns, data |-> [x \in ns |-> IF x = n THEN v ELSE IF x \in t.nodes THEN t.data[x] ELSE None]]

\* nodes deleted when unwinding from x after its data was taken (remove_in_class)
RECURSIVE Prune(_, _, _, _, _)
Prune(ns, d, x, target, variant) ==
  LET gone == Children(ns, x) = {} /\ (x = target \/ variant = "as_found" \/ d[x] = None) IN
  IF ~gone THEN {}
  ELSE IF x = <<>> THEN {x}
  ELSE {x} \cup Prune(ns \ {x}, d, Parent(x), target, variant)

TreeRemove(t, n, variant) ==
  IF n \notin t.nodes THEN t
  ELSE LET d1 == [t.data EXCEPT ![n] = None]
           del == Prune(t.nodes, d1, n, n, variant) IN
       [nodes |-> t.nodes \ del, data |-> [x \in t.nodes \ del |-> d1[x]]]

TreeGet(t, n) == IF n \in t.nodes THEN t.data[n] ELSE None

\* lookup_in_class: walk down as far as nodes exist, remember the deepest node with data
RECURSIVE TreeWalk(_, _, _, _)
TreeWalk(t, name, k, best) ==
  IF Sfx(name, k) \notin t.nodes THEN best
  ELSE LET here == Sfx(name, k)
           b2 == IF t.data[here] # None THEN <<here>> ELSE best IN
       IF k = Len(name) THEN b2 ELSE TreeWalk(t, name, k + 1, b2)
TreeLookupName(t, name) == IF t.nodes = {} THEN <<>> ELSE TreeWalk(t, name, 0, <<>>)     \* <<name>> or <<>>
TreeEntries(t) == {n \in t.nodes : t.data[n] # None}
====
