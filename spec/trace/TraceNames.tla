---- MODULE TraceNames ----
(* C14 + C16: wire name decoding / skipping / uncompressed parsing, and the text form,
   equality, hashing, ordering, subdomain, superdomain, labels, lowercasing of names,
   judged by Names.tla. One record per call group; records are independent. *)
EXTENDS Names, Json, IOUtils

Rec == ndJsonDeserialize(IOEnv.TRACE)
Chk(tag, cond) == IF cond THEN {} ELSE {tag}

WireFails(r) ==
  LET d == IF r.off >= Len(r.buf) THEN [ok |-> FALSE] ELSE DecodeName(r.buf, r.off)
      rest == Rest(r.buf, r.off)
      ch == Chunk(rest, 0, 0)
      u == Unc(rest, 0)
  IN Chk("C14",
  /\ IF d.ok THEN r.comp.out = "ok" /\ r.comp.name = WireOf(d.name) /\ r.comp.len = d.first ELSE r.comp.out = "err"
  /\ IF ch # 0 THEN r.skip.out = "ok" /\ r.skip.len = ch ELSE r.skip.out = "err"
  /\ IF u.ok THEN r.unc.out = "ok" /\ r.unc.name = WireOf(u.name) /\ r.unc.len = u.len ELSE r.unc.out = "err"
  /\ IF u.ok THEN r.val.out = "ok" /\ r.val.len = u.len ELSE r.val.out = "err"
  /\ IF u.ok /\ u.len = Len(rest) THEN r.valall.out = "ok" ELSE r.valall.out = "err")

NameFails(r) ==
  LET a == ParseName(r.a).name  b == ParseName(r.b).name
      p == ParseText(r.text) IN
  Chk("C16",
  /\ r.text = Render(a)
  /\ r.back.out = "ok" /\ r.back.name = r.a /\ p.ok /\ p.name = a
  /\ r.eq = NameEq(a, b)
  /\ r.cmp = CmpName(a, b, 0) /\ r.cmprev = CmpName(b, a, 0) /\ r.cmp + r.cmprev = 0
  /\ (r.eq => r.heq) /\ (r.cmp = 0) = r.eq
  /\ r.sub = IsSuffix(LowerName(b), LowerName(a))
  /\ r.lower = WireOf(LowerName(a))
  /\ r.nlabels = Len(a) + 1
  /\ r.labels = a \o << <<>> >>
  /\ r.root = (a = <<>>)
  /\ r.wild = (a # <<>> /\ a[1] = <<42>>)
  /\ IF r.k <= Len(a) THEN r.sup.out = "ok" /\ r.sup.name = WireOf(SubSeq(a, r.k + 1, Len(a))) ELSE r.sup.out = "none"
  \* LabelBuf: the first labels of a and b (the empty label for the root) compare, hash and print like labels
  /\ LET la == IF a = <<>> THEN <<>> ELSE a[1]  lb == IF b = <<>> THEN <<>> ELSE b[1] IN
     /\ r.lbuf.eq = (LowerSeq(la) = LowerSeq(lb)) /\ r.lbuf.cmp = CmpSeq(la, lb, 1) /\ (r.lbuf.eq => r.lbuf.heq)
     /\ r.lbuf.text = RenderLabel(la) /\ r.lbuf.len = Len(la) /\ r.lbuf.too_long /\ r.lbuf.max_ok
  \* LowercaseName: the lower-cased name, printed and parsed like a name, and back to a Name unchanged
  /\ r.lc.wire = WireOf(LowerName(a)) /\ r.lc.text = Render(LowerName(a)) /\ r.lc.back = r.lc.wire
  /\ r.lc.parsed.out = "ok" /\ r.lc.parsed.name = WireOf(LowerName(a)))

TextFails(r) ==
  LET p == ParseText(r.text) IN
  Chk("C16", IF p.ok THEN r.parsed.out = "ok" /\ r.parsed.name = WireOf(p.name) ELSE r.parsed.out = "err")

Fails(r) == IF r.ev = "Wire" THEN WireFails(r) ELSE IF r.ev = "Name" THEN NameFails(r) ELSE TextFails(r)

VARIABLES l, bad, nbad
Init == l = 1 /\ bad = <<>> /\ nbad = 0
Next == /\ l <= Len(Rec) /\ l' = l + 1
        /\ LET f == Fails(Rec[l]) IN
           /\ nbad' = IF f = {} THEN nbad ELSE nbad + 1
           /\ bad' = IF f = {} \/ Len(bad) >= 300 THEN bad ELSE Append(bad, <<l, f>>)
Spec == Init /\ [][Next]_<<l, bad, nbad>>
Report == l = Len(Rec) + 1 => PrintT(<<"REJECTED", nbad, bad>>)
====
