---- MODULE TraceCatalog ----
(* C22: histories of the real HashMapTreeCatalog (random ones and one per transition of the
   MC_Catalog state graph) and probes of SingleZoneCatalog, validated against the declarative
   map of Catalog.tla. After every insert/remove the harness logs what the call returned, the
   result of lookup and get for a set of probe names in every class, and the full iteration;
   all of it must equal what the map prescribes. *)
EXTENDS Catalog, Names, Json, IOUtils
Rec == ndJsonDeserialize(IOEnv.TRACE)
NameOf(wire) == LET n == ParseName(wire) IN IF n.ok THEN LowerName(n.name) ELSE <<<<255, 255>>>>      \* total: a malformed name is no entry's name

ObsOk(m, o) ==
  LET name == NameOf(o.p)
      hit == MapLookupName(m, o.c, name) IN
  /\ IF hit = <<>> THEN ~o.lookup.has
     ELSE o.lookup.has /\ NameOf(o.lookup.name) = hit[1] /\ o.lookup.gen = m[<<o.c, hit[1]>>] /\ o.lookup.class = o.c
  /\ o.get = MapGet(m, <<o.c, name>>)
IterOk(m, it) ==
  /\ Len(it) = Cardinality(DOMAIN m)
  /\ {<<it[j].class, NameOf(it[j].name), it[j].gen>> : j \in 1..Len(it)} = {<<k[1], k[2], m[k]>> : k \in DOMAIN m}

\* index of the first step the map does not explain (0 = the whole history is explained)
RECURSIVE Run(_, _, _)
Run(m, steps, i) ==
  IF i > Len(steps) THEN 0
  ELSE LET s == steps[i]  d == s.do
           k == <<d.class, NameOf(d.name)>>
           m2 == IF d.op = "insert" THEN MapInsert(m, k, d.gen) ELSE MapRemove(m, k) IN
       IF /\ d.old = MapGet(m, k)                                   \* the call returns the entry it replaced / removed
          /\ d.op \in {"insert", "remove"}
          /\ (s.full => /\ \A j \in 1..Len(s.obs) : ObsOk(m2, s.obs[j])
                        /\ IterOk(m2, s.iter))
       THEN Run(m2, steps, i + 1) ELSE i

\* SingleZoneCatalog = a map with exactly one entry
SingleOk(r) ==
  LET m == MapInsert(MapEmpty, <<r.class, NameOf(r.name)>>, r.gen) IN
  \A j \in 1..Len(r.obs) : ObsOk(m, r.obs[j])

Fails(r) == IF r.ev = "Hist" THEN Run(MapEmpty, r.steps, 1) # 0 ELSE ~SingleOk(r)

VARIABLES l, bad, nbad
Init == l = 1 /\ bad = <<>> /\ nbad = 0
Next == /\ l <= Len(Rec) /\ l' = l + 1
        /\ LET f == Fails(Rec[l]) IN
           /\ nbad' = IF f THEN nbad + 1 ELSE nbad
           /\ bad' = IF ~f \/ Len(bad) >= 300 THEN bad ELSE Append(bad, <<l, {"C22"}>>)
Spec == Init /\ [][Next]_<<l, bad, nbad>>
Report == l = Len(Rec) + 1 => PrintT(<<"REJECTED", nbad, bad>>)
====
