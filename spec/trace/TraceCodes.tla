---- MODULE TraceCodes ----
(* C17: the recorded results of Display / FromStr / TryFrom of every code value
   must equal Codes!Display / Codes!Parse and the 4-bit rules. *)
EXTENDS Codes, Json, IOUtils
Rec == ndJsonDeserialize(IOEnv.TRACE)
Chk(tag, cond) == IF cond THEN {} ELSE {tag}

Fails(r) ==
  IF r.ev = "Code" THEN Chk("C17",
     /\ r.text = Display(r.kind, r.v)
     /\ r.back = r.v                                  \* Display then parse
     /\ r.generic = r.v /\ r.generic_l = r.v          \* RFC 3597 form for every value, prefix caseless
     /\ r.generic_m = <<r.v, r.v>>                     \* ... in any mixture of cases ("tYpE12", "Class3")
     /\ r.upper = r.v /\ r.lower = r.v /\ r.mixed = r.v
     /\ \A i \in 1..Len(r.bad) : r.bad[i] = -1)
  ELSE IF r.ev = "Mnemonic" THEN Chk("C17",
     /\ r.type = Parse("TYPE", r.text) /\ r.class = Parse("CLASS", r.text)
     /\ r.qtype = Parse("QTYPE", r.text) /\ r.qclass = Parse("QCLASS", r.text))
  ELSE IF r.ev = "Small" THEN Chk("C17", r.opcode = (IF r.v < 16 THEN r.v ELSE -1) /\ r.rcode = (IF r.v < 16 THEN r.v ELSE -1))
  ELSE Chk("C17", r.rcode = (IF r.v < 16 THEN r.v ELSE -1))

VARIABLES l, bad, nbad
Init == l = 1 /\ bad = <<>> /\ nbad = 0
Next == /\ l <= Len(Rec) /\ l' = l + 1
        /\ LET f == Fails(Rec[l]) IN
           /\ nbad' = IF f = {} THEN nbad ELSE nbad + 1
           /\ bad' = IF f = {} \/ Len(bad) >= 300 THEN bad ELSE Append(bad, <<l, f>>)
Spec == Init /\ [][Next]_<<l, bad, nbad>>
Report == l = Len(Rec) + 1 => PrintT(<<"REJECTED", nbad, bad>>)
====
