---- MODULE TraceSnapshot ----
(* C32: concurrent replacement of the catalog and of the TSIG key set (Server::set_catalog /
   set_tsig_keys: RwLock<Arc<_>>) while requests are handled.

   Every generation is logged in full (Gen / KGen). The linearization point of a handler's snapshot is
   not logged atomically, so instead of guessing it the specification keeps, per handler thread, the
   WINDOW of generations its snapshot can have seen: at HBegin the committed generation plus those whose
   replacement is in flight; every SwapBegin(g) adds g to the window of every handler that has not yet
   passed its snapshot hook (SnapCatalog / SnapKeys freeze the window); SwapEnd(g) makes g the committed
   generation, so a handler that begins later can no longer see an older one.
   HEnd carries the request and response octets: the response must be exactly what the total request
   oracle (Server!Respond, judged by ServerJudge) prescribes for ONE catalog generation of the window
   and ONE key generation of the key window - a mixture of two snapshots matches no pair. *)
EXTENDS Server, Writer, Json, IOUtils
Rec == ndJsonDeserialize(IOEnv.TRACE)
J(c) == INSTANCE ServerJudge WITH cfg <- c

VARIABLES l, payload, gens, kgens, committed, pending, window, frozen, kcommitted, kpending, kwindow, kfrozen, bad, nbad
vars == <<l, payload, gens, kgens, committed, pending, window, frozen, kcommitted, kpending, kwindow, kfrozen, bad, nbad>>
Upd(f, k, v) == [x \in DOMAIN f \cup {k} |-> IF x = k THEN v ELSE f[x]]
EmptyMap == [x \in {} |-> 0]

CfgOf(g, k) == [cat |-> gens[g], payload |-> payload, keys |-> kgens[k], rrl |-> FALSE, strict |-> TRUE]
HEndOk(r) ==
  LET t == r.thr IN
  /\ t \in DOMAIN window
  /\ \E g \in window[t] : \E k \in kwindow[t] : J(CfgOf(g, k))!AllFails(r) = {}

Same == UNCHANGED <<payload, gens, kgens, committed, pending, window, frozen, kcommitted, kpending, kwindow, kfrozen>>
Ev(r) ==
  LET t == r.thr IN
  CASE r.ev = "Reset" ->
         /\ payload' = r.payload
         /\ gens' = Upd(EmptyMap, 1, J(0)!MkCat(r)) /\ kgens' = Upd(EmptyMap, 1, J(0)!MkKeys(r))
         /\ committed' = 1 /\ pending' = {} /\ window' = EmptyMap /\ frozen' = EmptyMap
         /\ kcommitted' = 1 /\ kpending' = {} /\ kwindow' = EmptyMap /\ kfrozen' = EmptyMap
    [] r.ev = "Gen" -> gens' = Upd(gens, r.g, J(0)!MkCat(r))
                       /\ UNCHANGED <<payload, kgens, committed, pending, window, frozen, kcommitted, kpending, kwindow, kfrozen>>
    [] r.ev = "KGen" -> kgens' = Upd(kgens, r.g, J(0)!MkKeys(r))
                        /\ UNCHANGED <<payload, gens, committed, pending, window, frozen, kcommitted, kpending, kwindow, kfrozen>>
    [] r.ev = "HBegin" ->
         /\ window' = Upd(window, t, {committed} \cup pending) /\ frozen' = Upd(frozen, t, FALSE)
         /\ kwindow' = Upd(kwindow, t, {kcommitted} \cup kpending) /\ kfrozen' = Upd(kfrozen, t, FALSE)
         /\ UNCHANGED <<payload, gens, kgens, committed, pending, kcommitted, kpending>>
    [] r.ev = "SnapCatalog" -> frozen' = Upd(frozen, t, TRUE)
         /\ UNCHANGED <<payload, gens, kgens, committed, pending, window, kcommitted, kpending, kwindow, kfrozen>>
    [] r.ev = "SnapKeys" -> kfrozen' = Upd(kfrozen, t, TRUE)
         /\ UNCHANGED <<payload, gens, kgens, committed, pending, window, frozen, kcommitted, kpending, kwindow>>
    [] r.ev = "SwapBegin" ->
         /\ pending' = pending \cup {r.g}
         /\ window' = [x \in DOMAIN window |-> IF frozen[x] THEN window[x] ELSE window[x] \cup {r.g}]
         /\ UNCHANGED <<payload, gens, kgens, committed, frozen, kcommitted, kpending, kwindow, kfrozen>>
    [] r.ev = "SwapEnd" -> committed' = r.g /\ pending' = pending \ {r.g}
         /\ UNCHANGED <<payload, gens, kgens, window, frozen, kcommitted, kpending, kwindow, kfrozen>>
    [] r.ev = "KSwapBegin" ->
         /\ kpending' = kpending \cup {r.g}
         /\ kwindow' = [x \in DOMAIN kwindow |-> IF kfrozen[x] THEN kwindow[x] ELSE kwindow[x] \cup {r.g}]
         /\ UNCHANGED <<payload, gens, kgens, committed, pending, window, frozen, kcommitted, kfrozen>>
    [] r.ev = "KSwapEnd" -> kcommitted' = r.g /\ kpending' = kpending \ {r.g}
         /\ UNCHANGED <<payload, gens, kgens, committed, pending, window, frozen, kwindow, kfrozen>>
    [] r.ev = "HEnd" -> Same
    [] OTHER -> Same

Init == /\ l = 1 /\ payload = 0 /\ gens = EmptyMap /\ kgens = EmptyMap /\ committed = 1 /\ pending = {} /\ window = EmptyMap /\ frozen = EmptyMap
        /\ kcommitted = 1 /\ kpending = {} /\ kwindow = EmptyMap /\ kfrozen = EmptyMap /\ bad = <<>> /\ nbad = 0
Next == /\ l <= Len(Rec) /\ l' = l + 1
        /\ Ev(Rec[l])
        /\ LET ok == Rec[l].ev # "HEnd" \/ HEndOk(Rec[l]) IN
           /\ nbad' = IF ok THEN nbad ELSE nbad + 1
           /\ bad' = IF ok \/ Len(bad) >= 300 THEN bad ELSE Append(bad, <<l, {"C32"}>>)
Spec == Init /\ [][Next]_vars
Report == l = Len(Rec) + 1 => PrintT(<<"REJECTED", nbad, bad>>)
====
