---- MODULE Dbg ----
(* Developer aid: print expected vs actual for record K of a server trace.
   K=<line> TRACE=<file> tlc -config Dbg.cfg Dbg.tla *)
EXTENDS TraceServer
K == atoi(IOEnv.K)
CfgIdx == CHOOSE i \in 1..K : Rec[i].ev = "Cfg" /\ \A j \in (i+1)..K : Rec[j].ev # "Cfg"
DbgCfg == MkCfg(Rec[CfgIdx])
R == Rec[K]
E == Respond(R.req, R.transport, DbgCfg, R.t0)
D == DecodeMessage(R.resp)
ASSUME PrintT(<<"EXPECTED", [x \in DOMAIN E \ {"tsig"} |-> E[x]]>>)
ASSUME PrintT(<<"ACTUAL an", Plain(D.an), "ns", Plain(D.ns), "ar", Plain(NoPseudo(D.ar)), "flags", D.flags>>)
VARIABLE x
DInit == x = 0
DNext == FALSE /\ x' = x
====
