CONSTANTS
  BufLen = 140
  QSizes = {}
  RSizes = {}
  TsigLens = {}
  Limits = {}
  Bufs = {}
  Variant = "impl"
SPECIFICATION TSpec
INVARIANT Report
CHECK_DEADLOCK FALSE
