---- MODULE TraceWriterSpace ----
(* (G) + (V) for the Writer's space accounting: every record is one history of the MC_WriterSpace state graph
   carried out on the real Writer (qv writer replay). Each recorded operation must be the WriterSpace action of
   that name, taken from the state the previous operations led to, with the recorded result and the recorded
   (cursor, available, limit) triple; finish() must return the length the specification gives, and the finished
   octets must be a DNS message of exactly that length (Wire!DecodeMessageG). A record that stops matching is
   noted and the next one is started from a fresh Writer. *)
EXTENDS WriterSpace, Wire, Json, IOUtils, TLC
Rec == ndJsonDeserialize(IOEnv.TRACE)

VARIABLES i, j, bad, nbad         \* record, next operation (0 = the Writer is not created yet)
tvars == <<i, j, bad, nbad>>

Act(o) ==
  CASE o.op = "AddQuestion" -> AddQuestion(o.arg)
    [] o.op = "AddRR" -> AddRR(o.arg)
    [] o.op = "SetLimit" -> SetLimit(o.arg)
    [] o.op = "SetEdns" -> SetEdns
    [] o.op = "SetTsig" -> SetTsig(o.arg)
    [] o.op = "Clear" -> Clear
    [] o.op = "Retemplate" -> Retemplate(o.arg)
    [] o.op = "Finish" -> Finish
    [] OTHER -> FALSE
Observed(o) == cursor' = o.cursor /\ avail' = o.avail /\ limit' = o.limit /\ last' = o.res /\ fin' = o.fin
Step(o) == Act(o) /\ Observed(o)

Fresh == cursor' = Header /\ avail' = BufLen /\ limit' = BufLen /\ rrstart' = Header /\ edns' = FALSE /\ tsig' = 0 /\ nrr' = 0 /\ fin' = 0 /\ last' = "ok" /\ buf' = BufLen

\* the finished octets: a message of the announced length whose counts are the accepted questions / records + OPT + TSIG
MsgOk(r) ==
  r.fin = 0 \/ (LET d == DecodeMessageG(r.final, FALSE) IN
                /\ Len(r.final) = r.fin /\ d.ok
                /\ Len(SelectSeq(d.ar, LAMBDA x : x.type = 41)) = (IF edns THEN 1 ELSE 0)
                /\ Len(SelectSeq(d.ar, LAMBDA x : x.type = 250)) = (IF tsig > 0 THEN 1 ELSE 0)
                /\ (tsig > 0 => d.ar[Len(d.ar)].type = 250))

TInit == /\ cursor = Header /\ avail = BufLen /\ limit = BufLen /\ rrstart = Header /\ edns = FALSE /\ tsig = 0 /\ nrr = 0 /\ fin = 0 /\ last = "ok" /\ buf = BufLen
         /\ i = 1 /\ j = 1 /\ bad = <<>> /\ nbad = 0
Reject == /\ nbad' = nbad + 1 /\ bad' = IF Len(bad) >= 300 THEN bad ELSE Append(bad, <<i, {"C12"}>>)
          /\ i' = i + 1 /\ j' = 1 /\ Fresh
TNext ==
  /\ i <= Len(Rec)
  /\ LET r == Rec[i] IN
     IF r.out # "ok" THEN Reject
     ELSE IF j > Len(r.ops) THEN
          \* end of the record
          IF MsgOk(r) THEN i' = i + 1 /\ j' = 1 /\ Fresh /\ UNCHANGED <<bad, nbad>> ELSE Reject
     ELSE IF ENABLED Step(r.ops[j]) THEN Step(r.ops[j]) /\ j' = j + 1 /\ UNCHANGED <<i, bad, nbad>>
     ELSE Reject
TSpec == TInit /\ [][TNext]_<<vars, tvars>>
Report == i = Len(Rec) + 1 => PrintT(<<"REJECTED", nbad, bad>>)
====
