---- MODULE TracePool ----
(* C29: hook-event traces of the real, unmodified thread pool (thread.rs) against the pool/group
   state machine of ThreadPool.tla. Every event is emitted inside the critical section that made the
   change and carries the sequence number taken there, so the log is a linearization. Condition-
   variable waiter sets are hidden (a woken event is always legal from the waiting state: spurious
   wake-ups exist, so which waiter a notify_one chose never has to be guessed); everything else is
   determined by the log, and the logged scalars (available workers, queue length, thread count)
   must equal the specification's after every step.
   Safety conditions of C29 evaluated along the way: a task runs at most once and only if accepted;
   the pool never has more queued tasks than workers that will look at the queue (the stranded-task
   condition: a lingering worker whose wait timed out may only leave if that still holds);
   await_shutdown returns only with thread_count = 0, every worker dead and every accepted task
   run; submissions after shutdown began are rejected; a watchdog expiry (HHang) is never a step. *)
EXTENDS Naturals, Sequences, FiniteSets, TLC, Json, IOUtils

Rec == ndJsonDeserialize(IOEnv.TRACE)

VARIABLES l, bad, nbad, skipping,
  queue, avail, poolSD, threadCount, groupSD,
  wst,        \* worker thread name -> [pc, cur, to]
  sst,        \* submitter thread name -> [task, kind, pc]
  auxTask,    \* auxiliary id -> task it was spawned for
  ran, accepted, awaited, nperm
vars == <<l, bad, nbad, skipping, queue, avail, poolSD, threadCount, groupSD, wst, sst, auxTask, ran, accepted, awaited, nperm>>

Upd(f, k, v) == [x \in DOMAIN f \cup {k} |-> IF x = k THEN v ELSE f[x]]
Get(f, k, d) == IF k \in DOMAIN f THEN f[k] ELSE d
Empty == [x \in {} |-> 0]
W0 == [pc |-> "new", cur |-> 0, to |-> FALSE]

ResetState(r) ==
  /\ queue' = <<>> /\ avail' = 0 /\ poolSD' = FALSE /\ threadCount' = 0 /\ groupSD' = FALSE
  /\ wst' = Empty /\ sst' = Empty /\ auxTask' = Empty /\ ran' = Empty /\ accepted' = {} /\ awaited' = FALSE
  /\ nperm' = r.nperm

Same == UNCHANGED <<queue, avail, poolSD, threadCount, groupSD, wst, sst, auxTask, ran, accepted, awaited, nperm>>
Scalars(r) == r.avail = avail' /\ r.qlen = Len(queue')

\* the auxiliary id is the number at the end of the thread name "<pool> auxiliary worker <id>"; the driver
\* logs it in SosSpawn; the aux thread's first HRan is matched through auxTask by spawn order (ids are 0,1,2,...)

Ev(r) ==
  LET t == r.thr
      w == Get(wst, t, W0)
  IN
  CASE r.ev = "HCfg" -> Same
    [] r.ev = "HEnd" -> Same
    [] r.ev = "HAllRan" -> (\A x \in accepted : Get(ran, x, 0) = 1) /\ Same
    [] r.ev = "HShutDownCall" -> Same
    [] r.ev = "SosLocked" -> Same
    [] r.ev = "SWoken" -> Same
    [] r.ev = "HCallStart" ->
         /\ sst' = Upd(sst, t, [task |-> r.task, kind |-> r.kind, pc |-> "called"])
         /\ UNCHANGED <<queue, avail, poolSD, threadCount, groupSD, wst, auxTask, ran, accepted, awaited, nperm>>
    [] r.ev = "SPush" ->
         /\ t \in DOMAIN sst /\ sst[t].pc = "called"
         /\ ~poolSD /\ avail > Len(queue)
         /\ queue' = Append(queue, sst[t].task)
         /\ accepted' = accepted \cup {sst[t].task}
         /\ sst' = Upd(sst, t, [sst[t] EXCEPT !.pc = "accepted"])
         /\ UNCHANGED <<avail, poolSD, threadCount, groupSD, wst, auxTask, ran, awaited, nperm>>
         /\ Scalars(r)
    [] r.ev = "SWait" ->
         /\ t \in DOMAIN sst /\ sst[t].pc = "called" /\ sst[t].kind = 0
         /\ ~poolSD /\ avail <= Len(queue)
         /\ Same /\ Scalars(r)
    [] r.ev = "SReject" ->
         /\ t \in DOMAIN sst /\ sst[t].pc = "called" /\ poolSD
         /\ sst' = Upd(sst, t, [sst[t] EXCEPT !.pc = "rejected"])
         /\ UNCHANGED <<queue, avail, poolSD, threadCount, groupSD, wst, auxTask, ran, accepted, awaited, nperm>>
    [] r.ev = "SosSpawn" ->
         /\ t \in DOMAIN sst /\ sst[t].pc = "called" /\ sst[t].kind = 1
         /\ ~poolSD /\ avail <= Len(queue)
         /\ sst' = Upd(sst, t, [sst[t] EXCEPT !.pc = "spawning"])
         /\ auxTask' = Upd(auxTask, r.aux, [task |-> sst[t].task, thr |-> "", started |-> FALSE])
         /\ UNCHANGED <<queue, avail, poolSD, threadCount, groupSD, wst, ran, accepted, awaited, nperm>>
         /\ Scalars(r)
    [] r.ev = "GStart" ->          \* start_oneshot inside submit_or_spawn
         /\ t \in DOMAIN sst /\ sst[t].pc = "spawning" /\ ~groupSD
         /\ threadCount' = threadCount + 1 /\ r.tc = threadCount'
         /\ accepted' = accepted \cup {sst[t].task}
         /\ sst' = Upd(sst, t, [sst[t] EXCEPT !.pc = "accepted"])
         /\ UNCHANGED <<queue, avail, poolSD, groupSD, wst, auxTask, ran, awaited, nperm>>
    [] r.ev = "GStartR" ->         \* permanent worker registered (start_pool) or respawned
         /\ ~groupSD
         /\ threadCount' = threadCount + 1 /\ r.tc = threadCount'
         /\ UNCHANGED <<queue, avail, poolSD, groupSD, wst, sst, auxTask, ran, accepted, awaited, nperm>>
    [] r.ev = "HCallRet" ->
         /\ t \in DOMAIN sst
         /\ IF r.ok = 1 THEN sst[t].pc = "accepted" ELSE sst[t].pc \in {"rejected", "spawning"}
         /\ Same
    [] r.ev = "HRan" ->
         /\ Get(ran, r.task, 0) = 0                               \* at most once
         /\ r.task \in accepted
         /\ ran' = Upd(ran, r.task, 1)
         /\ wst' = Upd(wst, t, [w EXCEPT !.pc = "top"])
         /\ IF w.pc = "run" THEN w.cur = r.task /\ UNCHANGED auxTask
            ELSE /\ w.pc = "new"                                   \* first task of a fresh auxiliary worker
                 /\ \E a \in DOMAIN auxTask :
                       /\ auxTask[a].task = r.task /\ ~auxTask[a].started
                       /\ auxTask' = Upd(auxTask, a, [auxTask[a] EXCEPT !.started = TRUE])
         /\ UNCHANGED <<queue, avail, poolSD, threadCount, groupSD, sst, accepted, awaited, nperm>>
    [] r.ev = "WTop" ->
         /\ w.pc \in {"new", "top"}
         /\ avail' = avail + 1
         /\ wst' = Upd(wst, t, [w EXCEPT !.pc = "check"])
         /\ UNCHANGED <<queue, poolSD, threadCount, groupSD, sst, auxTask, ran, accepted, awaited, nperm>>
         /\ Scalars(r)
    [] r.ev = "WTake" ->
         /\ w.pc \in {"check", "timedout"} /\ queue # <<>>      \* "timedout": the wait timed out but a task is queued
         /\ queue' = Tail(queue) /\ avail' = avail - 1
         /\ wst' = Upd(wst, t, [w EXCEPT !.pc = "run", !.cur = Head(queue)])
         /\ UNCHANGED <<poolSD, threadCount, groupSD, sst, auxTask, ran, accepted, awaited, nperm>>
         /\ Scalars(r)
    [] r.ev = "WWait" ->
         /\ w.pc = "check" /\ queue = <<>> /\ ~poolSD
         /\ wst' = Upd(wst, t, [w EXCEPT !.pc = "waiting"])
         /\ UNCHANGED <<queue, avail, poolSD, threadCount, groupSD, sst, auxTask, ran, accepted, awaited, nperm>>
         /\ Scalars(r)
    [] r.ev = "WWoken" ->
         /\ w.pc = "waiting"
         /\ wst' = Upd(wst, t, [w EXCEPT !.pc = IF r.to = 1 THEN "timedout" ELSE "check", !.to = (r.to = 1)])
         /\ UNCHANGED <<queue, avail, poolSD, threadCount, groupSD, sst, auxTask, ran, accepted, awaited, nperm>>
         /\ Scalars(r)
    [] r.ev = "WTimeoutExit" ->
         /\ w.pc = "timedout"
         /\ avail' = avail - 1
         /\ avail' >= Len(queue)                          \* otherwise a queued task is left without a worker (stranded)
         /\ wst' = Upd(wst, t, [w EXCEPT !.pc = "exit"])
         /\ UNCHANGED <<queue, poolSD, threadCount, groupSD, sst, auxTask, ran, accepted, awaited, nperm>>
         /\ Scalars(r)
    [] r.ev = "WDeadline" ->
         /\ w.pc = "check" /\ queue = <<>> /\ ~poolSD
         /\ avail' = avail - 1
         /\ wst' = Upd(wst, t, [w EXCEPT !.pc = "exit"])
         /\ UNCHANGED <<queue, poolSD, threadCount, groupSD, sst, auxTask, ran, accepted, awaited, nperm>>
         /\ Scalars(r)
    [] r.ev = "WSdExit" ->
         /\ w.pc = "check" /\ queue = <<>> /\ poolSD
         /\ wst' = Upd(wst, t, [w EXCEPT !.pc = "exit"])
         /\ UNCHANGED <<queue, avail, poolSD, threadCount, groupSD, sst, auxTask, ran, accepted, awaited, nperm>>
         /\ Scalars(r)
    [] r.ev = "GEnd" ->
         /\ w.pc \in {"exit", "top"}      \* "top": a non-lingering auxiliary worker ends right after its task
         /\ threadCount' = threadCount - 1 /\ r.tc = threadCount' /\ (r.sd = 1) = groupSD
         /\ wst' = Upd(wst, t, [w EXCEPT !.pc = "dead"])
         /\ UNCHANGED <<queue, avail, poolSD, groupSD, sst, auxTask, ran, accepted, awaited, nperm>>
    [] r.ev = "PShutDown" ->
         /\ poolSD' = TRUE
         /\ UNCHANGED <<queue, avail, threadCount, groupSD, wst, sst, auxTask, ran, accepted, awaited, nperm>>
         /\ Scalars(r)
    [] r.ev = "GShutDown" ->
         /\ poolSD /\ groupSD' = TRUE /\ r.tc = threadCount
         /\ UNCHANGED <<queue, avail, poolSD, threadCount, wst, sst, auxTask, ran, accepted, awaited, nperm>>
    [] r.ev = "GAwaited" ->
         /\ groupSD /\ threadCount = 0 /\ r.tc = 0
         /\ \A x \in accepted : Get(ran, x, 0) = 1       \* accepted tasks ran before await_shutdown returned
         /\ \A x \in DOMAIN wst : wst[x].pc = "dead"
         /\ awaited' = TRUE
         /\ UNCHANGED <<queue, avail, poolSD, threadCount, groupSD, wst, sst, auxTask, ran, accepted, nperm>>
    [] r.ev = "HHang" -> FALSE
    [] OTHER -> FALSE

Init == l = 1 /\ bad = <<>> /\ nbad = 0 /\ skipping = FALSE /\ queue = <<>> /\ avail = 0 /\ poolSD = FALSE /\ threadCount = 0 /\ groupSD = FALSE
        /\ wst = Empty /\ sst = Empty /\ auxTask = Empty /\ ran = Empty /\ accepted = {} /\ awaited = FALSE /\ nperm = 0

\* after a rejected event the rest of that session is skipped (state unknown) until the next Reset
Next ==
  /\ l <= Len(Rec) /\ l' = l + 1
  /\ LET r == Rec[l] IN
     IF r.ev = "Reset" THEN ResetState(r) /\ skipping' = FALSE /\ UNCHANGED <<bad, nbad>>
     ELSE IF skipping THEN Same /\ UNCHANGED <<bad, nbad, skipping>>
     ELSE IF ENABLED Ev(r) THEN Ev(r) /\ UNCHANGED <<bad, nbad, skipping>>
     ELSE /\ Same /\ skipping' = TRUE /\ nbad' = nbad + 1
          /\ bad' = IF Len(bad) >= 300 THEN bad ELSE Append(bad, <<l, {"C29"}>>)
Spec == Init /\ [][Next]_vars
Report == l = Len(Rec) + 1 => PrintT(<<"REJECTED", nbad, bad>>)
====
