---- MODULE TraceIo ----
(* C30: what the blocking and Tokio I/O providers returned on loopback sockets against
   Framing!ExpectedStream. One record per TCP connection / UDP exchange. *)
EXTENDS Framing, FiniteSets, TLC, Json, IOUtils
Rec == ndJsonDeserialize(IOEnv.TRACE)
IsPrefixOf(a, b) == Len(a) <= Len(b) /\ SubSeq(b, 1, Len(a)) = a

TcpOk(r) ==
  LET e == ExpectedStream(r.direct) IN
  \* a connection the server closes while requests are still unread or still being sent is reset by the kernel,
  \* which discards what was left in the server's send queue and what the client had not read yet (r.reset: a read
  \* or a write of the client failed): then only "nothing wrong was sent" can be required. Seen once in 6 000
  \* connections of a thorough run on a loaded machine (segmented sending, response-less request in the middle).
  /\ IF r.reset THEN IsPrefixOf(r.got, e.stream) /\ e.closes ELSE r.got = e.stream
  /\ (e.closes => r.closed)
UdpOk(r) ==
  IF r.direct = <<>> THEN r.got = <<>>
  ELSE /\ Len(r.got) = 1                                 \* exactly one datagram
       /\ r.got[1].data = r.direct
       /\ r.got[1].from_port = r.port                    \* from the server's socket, to the request's source
       /\ Len(r.got[1].data) <= r.payload
Ok(r) == IF r.ev = "Tcp" THEN TcpOk(r) ELSE IF r.ev = "Udp" THEN UdpOk(r) ELSE TRUE

VARIABLES l, bad, nbad
Init == l = 1 /\ bad = <<>> /\ nbad = 0
Next == /\ l <= Len(Rec) /\ l' = l + 1
        /\ LET ok == Ok(Rec[l]) IN
           /\ nbad' = IF ok THEN nbad ELSE nbad + 1
           /\ bad' = IF ok \/ Len(bad) >= 300 THEN bad ELSE Append(bad, <<l, {"C30"}>>)
Spec == Init /\ [][Next]_<<l, bad, nbad>>
Report == l = Len(Rec) + 1 => PrintT(<<"REJECTED", nbad, bad>>)
====
