---- MODULE TraceReload ----
(* C31: histories of configuration / zone-file edits against a running quandaryd with a SIGHUP after
   every step, observed over UDP. The served state per zone evolves by Reload!Expected; every logged
   response (raw octets, decoded here by Wire!DecodeMessage) must be what the longest-matching served
   entry prescribes: REFUSED without an entry, SERVFAIL for a placeholder, the zone's TXT record with
   the version it was loaded from at the apex, NXDOMAIN with that zone's SOA below it. *)
EXTENDS Reload, Wire, Json, IOUtils
Rec == ndJsonDeserialize(IOEnv.TRACE)

Rev(s) == [i \in 1..Len(s) |-> s[Len(s) + 1 - i]]
Key(wire) == Rev(LowerName(ParseName(wire).name))          \* top-down label sequence, as Reload.tla keys zones
RECURSIVE DecDigits(_)
DecDigits(n) == IF n < 10 THEN <<48 + n>> ELSE DecDigits(n \div 10) \o <<48 + (n % 10)>>
RECURSIVE Dotted(_, _)
Dotted(key, i) == IF i = 0 THEN <<>> ELSE key[i] \o <<46>> \o Dotted(key, i - 1)
\* the TXT RDATA the driver put into version v of zone `key`:  "<name>:v<v>"
TxtOf(key, v) == LET t == Dotted(key, Len(key)) \o <<58, 118>> \o DecDigits(v) IN <<Len(t)>> \o t

Config(r) == {Key(r.config[i].w) : i \in 1..Len(r.config)}
ValidMap(r) == LET idx == {i \in 1..Len(r.files) : r.files[i].k = "valid"} IN
               [z \in {Key(r.files[i].w) : i \in idx} |-> (CHOOSE i \in idx : Key(r.files[i].w) = z) \* one file per zone
                                                           ]
ValidVersions(r) == [z \in DOMAIN ValidMap(r) |-> r.files[ValidMap(r)[z]].v]

ObsOk(s, o) ==
  LET q == Key(o.q)
      z == Serving(s, q)
      m == DecodeMessage(o.resp) IN
  /\ m.ok
  /\ LET rcode == m.flags % 16 IN
     IF z = NoneZ THEN rcode = 5 /\ m.an = <<>>
     ELSE IF s[z].k = "servfail" THEN rcode = 2 /\ m.an = <<>>
     ELSE IF q = z THEN /\ rcode = 0 /\ Len(m.an) = 1 /\ m.an[1].type = 16
                        /\ m.an[1].rdata = TxtOf(z, s[z].v)
     ELSE /\ rcode = 3 /\ m.an = <<>> /\ Len(m.ns) = 1 /\ m.ns[1].type = 6 /\ Rev(m.ns[1].owner) = z

VARIABLES l, served, skipping, bad, nbad
vars == <<l, served, skipping, bad, nbad>>
EmptyMap == [x \in {} |-> Fail]
Init == l = 1 /\ served = EmptyMap /\ skipping = FALSE /\ bad = <<>> /\ nbad = 0
Next ==
  /\ l <= Len(Rec) /\ l' = l + 1
  /\ LET r == Rec[l] IN
     IF r.ev = "Reset" THEN served' = EmptyMap /\ skipping' = FALSE /\ UNCHANGED <<bad, nbad>>
     ELSE IF skipping THEN UNCHANGED <<served, skipping, bad, nbad>>
     ELSE LET s == Expected(served, Config(r), ValidVersions(r))
              ok == r.live /\ \A i \in 1..Len(r.obs) : ObsOk(s, r.obs[i]) IN
          /\ served' = s /\ skipping' = ~ok
          /\ nbad' = IF ok THEN nbad ELSE nbad + 1
          /\ bad' = IF ok \/ Len(bad) >= 300 THEN bad ELSE Append(bad, <<l, {"C31"}>>)
Spec == Init /\ [][Next]_vars
Report == l = Len(Rec) + 1 => PrintT(<<"REJECTED", nbad, bad>>)
====
