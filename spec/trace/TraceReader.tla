---- MODULE TraceReader ----
(* C15: one record = one message + the sequence of reader calls made on it with
   their results and the cursor after each call. *)
EXTENDS Reader, Json, IOUtils
Rec == ndJsonDeserialize(IOEnv.TRACE)
VARIABLES l, bad, nbad
Init == l = 1 /\ bad = <<>> /\ nbad = 0
Next == /\ l <= Len(Rec) /\ l' = l + 1
        /\ LET ok == RunR(Rec[l].msg, Rec[l].ops, 1, 12, 12) IN
           /\ nbad' = IF ok THEN nbad ELSE nbad + 1
           /\ bad' = IF ok \/ Len(bad) >= 300 THEN bad ELSE Append(bad, <<l, {"C15"}>>)
Spec == Init /\ [][Next]_<<l, bad, nbad>>
Report == l = Len(Rec) + 1 => PrintT(<<"REJECTED", nbad, bad>>)
====
