---- MODULE TraceServer ----
(* Trace validation of Server!Respond against recorded executions of the real
   Server::handle_message. One record per request; the response octets are decoded
   by Wire!DecodeMessage and judged here. Every failed conjunct is attributed to
   the property that states it, so a check for property X reports only X. *)
EXTENDS Server, Writer, Json, IOUtils

Rec == ndJsonDeserialize(IOEnv.TRACE)

VARIABLES l, cfg, bad, nbad
vars == <<l, cfg, bad, nbad>>
INSTANCE ServerJudge

Init == l = 1 /\ cfg = [cat |-> <<>>, payload |-> 0, keys |-> <<>>, rrl |-> FALSE, strict |-> FALSE] /\ bad = <<>> /\ nbad = 0
Step(r) ==
  \/ /\ r.ev = "Cfg" /\ cfg' = MkCfg(r) /\ UNCHANGED <<bad, nbad>>
  \/ /\ r.ev = "Req" /\ UNCHANGED cfg
     /\ LET f == AllFails(r) IN
        /\ nbad' = IF f = {} THEN nbad ELSE nbad + 1
        /\ bad' = IF f = {} \/ Len(bad) >= 400 THEN bad ELSE Append(bad, <<l, f>>)
Next == l <= Len(Rec) /\ Step(Rec[l]) /\ l' = l + 1
Spec == Init /\ [][Next]_vars
Report == l = Len(Rec) + 1 => PrintT(<<"REJECTED", nbad, bad>>)
====
