SPECIFICATION Spec
INVARIANT Report
CHECK_DEADLOCK FALSE
