---- MODULE TraceNameBuilder ----
(* C16, NameBuilder API: one record = one sequence of operations on a real NameBuilder, continued after errors
   (try_push, try_push_slice, next_label, then finish or finish_with_suffix, which consume it). Every recorded result,
   the value of is_fully_qualified() after every call, and the finished name must be what NameBuilder.tla gives for
   MaxWire = 255 and MaxLabel = 63; a panic is no step of the specification. *)
EXTENDS NameBuilder, Json, IOUtils, TLC
Rec == ndJsonDeserialize(IOEnv.TRACE)

StepOf(st, o) ==
  IF o.op = "push" THEN Push(st, o.arg)
  ELSE IF o.op = "next" THEN NextLabel(st)
  ELSE IF o.op = "finish" THEN Finish(st)
  ELSE FinishWithSuffix(st, o.arg)
RECURSIVE RunOk(_, _, _)
RunOk(st, ops, i) ==
  i > Len(ops) \/
  (LET o == ops[i]  r == StepOf(st, o) IN
   /\ o.res = r.res
   /\ (o.op \in {"push", "next"} => o.fq = FullyQualified(r.st))
   /\ (o.op \in {"finish", "suffix"} /\ r.res = "ok" => o.name = r.name /\ ValidName(o.name))
   /\ RunOk(r.st, ops, i + 1))
Fails(r) == IF r.out = "ok" /\ RunOk(New, r.ops, 1) THEN {} ELSE {"C16"}

VARIABLES l, bad, nbad
Init == l = 1 /\ bad = <<>> /\ nbad = 0
Next == /\ l <= Len(Rec) /\ l' = l + 1
        /\ LET f == Fails(Rec[l]) IN
           /\ nbad' = IF f = {} THEN nbad ELSE nbad + 1
           /\ bad' = IF f = {} \/ Len(bad) >= 300 THEN bad ELSE Append(bad, <<l, f>>)
Spec == Init /\ [][Next]_<<l, bad, nbad>>
Report == l = Len(Rec) + 1 => PrintT(<<"REJECTED", nbad, bad>>)
====
