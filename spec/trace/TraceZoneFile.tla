---- MODULE TraceZoneFile ----
(* C23 (File records), C25 (Tree records), C24 (Fuzz records): what the real zone-file parsers
   yielded against ZoneFile.tla. The expected meaning of a rendered file is computed here from its
   abstract lines by the context machine / include stack; the harness only renders and parses. *)
EXTENDS ZoneFile, Rdata, Json, IOUtils
Rec == ndJsonDeserialize(IOEnv.TRACE)
Chk(tag, cond) == IF cond THEN {} ELSE {tag}

\* Known finding (known_findings.json, C23): quandary writes the WKS port bitmap least-significant-bit first,
\* RFC 1035 2.3.2/3.4.2 (and every other implementation) number bits from the most significant one. `lsb` selects
\* which of the two a comparison accepts, so that exactly this deviation gets its own tag and nothing else is hidden.
Rev8(b) == Bit(b, 1) * 128 + Bit(b, 2) * 64 + Bit(b, 4) * 32 + Bit(b, 8) * 16 + Bit(b, 16) * 8 + Bit(b, 32) * 4 + Bit(b, 64) * 2 + Bit(b, 128)
WksLsb(rd) == [i \in 1..Len(rd) |-> IF i <= 5 THEN rd[i] ELSE Rev8(rd[i])]
SameRec(p, e, withFile, lsb) ==
  /\ p.k = "rec" /\ p.line = e.line /\ p.owner = e.owner /\ p.ttl = e.ttl /\ p.class = e.class
  /\ p.type = e.type /\ (withFile => p.file = e.file)
  /\ p.rdata = (IF lsb /\ e.type = 11 /\ e.class = 1 THEN WksLsb(e.rdata) ELSE e.rdata)

\* got = expected records in order, followed by exactly one error item iff the spec says the parse fails
Matches(got, out, err, withFile, lsb) ==
  /\ Len(got) = Len(out) + (IF err THEN 1 ELSE 0)
  /\ \A i \in 1..Len(out) : SameRec(got[i], out[i], withFile, lsb)
  /\ (err => got[Len(got)].k = "err")
Judge(tag, got, out, err, withFile) ==
  IF Matches(got, out, err, withFile, FALSE) THEN {}
  ELSE IF Matches(got, out, err, withFile, TRUE) THEN {"C23:wks-bit-order"} ELSE {tag}

\* C24: what any input may yield
YieldOk(items) ==
  LET errs == {i \in 1..Len(items) : items[i].k = "err"} IN
  /\ \A i \in 1..Len(items) : items[i].k \in {"rec", "err", "include"}          \* no panic
  /\ Cardinality(errs) <= 1 /\ (errs # {} => errs = {Len(items)})            \* nothing after the first error
  /\ \A i \in 1..Len(items) : items[i].k = "rec" =>
        /\ items[i].type \notin {10, 41, 250}                                  \* NULL, OPT, TSIG
        /\ ParseName(items[i].owner).ok                                        \* an absolute, well-formed owner
        /\ Valid(items[i].class, items[i].type, items[i].rdata)

Fails(r) ==
  IF r.ev = "File" THEN
     LET e == RunFile(Ctx0, r.items, 1, 1, <<>>) IN
     Judge("C23", r.parsed, e.out, ~e.ok, FALSE) \cup Chk("C24", YieldOk(r.parsed))
  ELSE IF r.ev = "Tree" THEN
     LET e == ParseTree(r.files, r.max_depth) IN
     Judge("C25", r.got, e.out, e.err, TRUE)
  ELSE Chk("C24", YieldOk(r.items) /\ YieldOk(r.items_ro) /\ ~r.slow
                  \* records_only() yields the same records up to the first $INCLUDE, which is its (last) error
                  /\ LET inc == {i \in 1..Len(r.items) : r.items[i].k = "include"} IN
                     IF inc = {} THEN r.items_ro = r.items
                     ELSE LET f == CHOOSE i \in inc : \A j \in inc : i <= j IN
                          /\ Len(r.items_ro) = f /\ r.items_ro[f].k = "err"
                          /\ SubSeq(r.items_ro, 1, f - 1) = SubSeq(r.items, 1, f - 1))

VARIABLES l, bad, nbad
Init == l = 1 /\ bad = <<>> /\ nbad = 0
Next == /\ l <= Len(Rec) /\ l' = l + 1
        /\ LET f == Fails(Rec[l]) IN
           /\ nbad' = IF f = {} THEN nbad ELSE nbad + 1
           /\ bad' = IF f = {} \/ Len(bad) >= 300 THEN bad ELSE Append(bad, <<l, f>>)
Spec == Init /\ [][Next]_<<l, bad, nbad>>
Report == l = Len(Rec) + 1 => PrintT(<<"REJECTED", nbad, bad>>)
====
