CONSTANTS
  MaxWire = 255
  MaxLabel = 63
  Variant = "impl"
SPECIFICATION Spec
INVARIANT Report
CHECK_DEADLOCK FALSE
