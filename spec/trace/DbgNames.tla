---- MODULE DbgNames ----
EXTENDS TraceNames
r == Rec[1]
a == ParseName(r.a).name
b == ParseName(r.b).name
p == ParseText(r.text)
ASSUME PrintT(<<"render", r.text = Render(a), "back", r.back.out = "ok" /\ r.back.name = r.a, "p", p.ok, "eq", r.eq = NameEq(a, b),
  "cmp", r.cmp = CmpName(a, b, 0), r.cmprev = CmpName(b, a, 0), "heq", (r.eq => r.heq), (r.cmp = 0) = r.eq,
  "sub", r.sub = IsSuffix(LowerName(b), LowerName(a)), "lower", r.lower = WireOf(LowerName(a)), "nl", r.nlabels = Len(a) + 1,
  "labels", r.labels = a \o << <<>> >>, "root", r.root = (a = <<>>), "wild", r.wild = (a # <<>> /\ a[1] = <<42>>),
  "sup", IF r.k <= Len(a) THEN r.sup.out = "ok" /\ r.sup.name = WireOf(SubSeq(a, r.k + 1, Len(a))) ELSE r.sup.out = "none">>)
====
