---- MODULE TraceRdata ----
(* C18 + C19: recorded results of Rdata::validate / read / equals, RdataSetOwned and a
   writer -> reader round trip, judged by Rdata.tla. *)
EXTENDS Rdata, Json, IOUtils
Rec == ndJsonDeserialize(IOEnv.TRACE)
Chk(tag, cond) == IF cond THEN {} ELSE {tag}

RdFails(r) ==
  LET E(x, y) == Equal(r.class, r.type, x, y) IN
  Chk("C18", r.valid = Valid(r.class, r.type, r.a))
  \cup Chk("C19",
    /\ r.eqs[1] = TRUE                                                    \* reflexive
    /\ r.eqs[2] = E(r.a, r.b) /\ r.eqs[3] = E(r.b, r.a) /\ r.eqs[2] = r.eqs[3]   \* symmetric
    /\ r.eqs[4] = E(r.b, r.c) /\ r.eqs[5] = E(r.c, r.b) /\ r.eqs[4] = r.eqs[5]
    /\ r.eqs[6] = E(r.a, r.c) /\ r.eqs[7] = E(r.c, r.a)
    /\ (r.eqs[2] /\ r.eqs[4] => r.eqs[6])                                 \* transitive
    /\ r.kept = Dedup(r.class, r.type, <<r.a, r.b, r.c, r.a>>, <<>>))
ReadFails(r) ==
  LET e == Read(r.class, r.type, r.msg, r.cursor, r.rdlen) IN
  Chk("C18", IF e.ok THEN r.res.out = "ok" /\ r.res.rdata = e.rd /\ Valid(r.class, r.type, e.rd) ELSE r.res.out = "err")
\* a valid RDATA written with any compression mode reads back as the same RDATA
\* (embedded names may change case only in Standard mode = 0)
RtFails(r) ==
  Chk("C18", /\ Valid(r.class, r.type, r.a)
             /\ r.res.out = "ok"
             /\ IF r.mode = 0 THEN Equal(r.class, r.type, r.res.rdata, r.a) /\ Len(r.res.rdata) = Len(r.a) ELSE r.res.rdata = r.a)
\* a panic inside validate / equals / RdataSetOwned is an outcome no operator of Rdata.tla has (both properties say "never panics")
Fails(r) == IF r.ev = "RdPanic" THEN {"C18", "C19"} ELSE IF r.ev = "Rd" THEN RdFails(r) ELSE IF r.ev = "Read" THEN ReadFails(r) ELSE RtFails(r)

VARIABLES l, bad, nbad
Init == l = 1 /\ bad = <<>> /\ nbad = 0
Next == /\ l <= Len(Rec) /\ l' = l + 1
        /\ LET f == Fails(Rec[l]) IN
           /\ nbad' = IF f = {} THEN nbad ELSE nbad + 1
           /\ bad' = IF f = {} \/ Len(bad) >= 300 THEN bad ELSE Append(bad, <<l, f>>)
Spec == Init /\ [][Next]_<<l, bad, nbad>>
Report == l = Len(Rec) + 1 => PrintT(<<"REJECTED", nbad, bad>>)
====
