---- MODULE TraceLookup ----
(* C06: recorded lookup / lookup_addrs / lookup_all results of the real HashMapTreeZone
   against the declarative lookup of Zone.tla (RFC 1034 4.3.2, RFC 4592). A session is a
   Cfg record (the accepted adds, folded through ZoneStore!AddRec) followed by Lk records. *)
EXTENDS ZoneStore, Json, IOUtils
Rec == ndJsonDeserialize(IOEnv.TRACE)

RECURSIVE Fold(_, _, _)
Fold(z, recs, i) == IF i > Len(recs) THEN z ELSE Fold(AddRec(z, recs[i]), recs, i + 1)
MkZ(j) == Fold([apex |-> LowerName(ParseName(j.apex).name), state |-> "loaded", class |-> j.class, recs |-> <<>>], j.records, 1)

SetOk(t, e, j) ==      \* logged rrset j = stored rrset e (TTL, RDATAs in insertion order)
  /\ e # <<>> /\ j.has /\ j.ttl = e[1].ttl
  /\ [k \in 1..Len(j.rdatas) |-> CanonRdata(t, j.rdatas[k])] = [k \in 1..Len(e) |-> e[k].rdata]
OptOk(t, e, j) == IF e = <<>> THEN ~j.has ELSE SetOk(t, e, j)
SosOk(name, node, sos) ==
  IF node = name THEN sos = <<>> ELSE sos # <<>> /\ LowerName(ParseName(sos).name) = node

LkOk(z, r) ==
  LET name == LowerName(ParseName(r.name).name)
      b == IF r.unchecked THEN LookupBase(z, name, r.sbc) ELSE LookupChecked(z, name, r.sbc)
      res == r.res IN
  IF res.kind = "panic" THEN FALSE
  ELSE IF b.kind = "wrongzone" THEN res.kind = "wrongzone"
  ELSE IF b.kind = "nxdomain" THEN res.kind = "nxdomain"
  ELSE IF b.kind = "referral" THEN
       /\ res.kind = "referral"
       /\ LowerName(ParseName(res.cut).name) = b.cut
       /\ SetOk(2, RRsetAt(z, b.cut, 2), res.rrset)
  ELSE \* a node: the name itself, or the source of synthesis
    IF r.fn = "lookup" THEN
       LET found == RRsetAt(z, b.node, r.type)
           cn == RRsetAt(z, b.node, 5) IN
       IF found # <<>> THEN res.kind = "found" /\ SosOk(name, b.node, res.sos) /\ SetOk(r.type, found, res.rrset)
       ELSE IF cn # <<>> THEN res.kind = "cname" /\ SosOk(name, b.node, res.sos) /\ SetOk(5, cn, res.rrset)
       ELSE res.kind = "norecords" /\ SosOk(name, b.node, res.sos)
    ELSE IF r.fn = "addrs" THEN
       /\ res.kind = "found" /\ SosOk(name, b.node, res.sos)
       /\ OptOk(1, RRsetAt(z, b.node, 1), res.a)
       /\ (IF z.class = 1 THEN OptOk(28, RRsetAt(z, b.node, 28), res.aaaa) ELSE ~res.aaaa.has)
    ELSE
       /\ res.kind = "found" /\ SosOk(name, b.node, res.sos)
       /\ {res.rrsets[k].type : k \in 1..Len(res.rrsets)} = TypesAt(z, b.node)
       /\ Cardinality(TypesAt(z, b.node)) = Len(res.rrsets)
       /\ \A k \in 1..Len(res.rrsets) :
            SetOk(res.rrsets[k].type, RRsetAt(z, b.node, res.rrsets[k].type), [has |-> TRUE, ttl |-> res.rrsets[k].ttl, rdatas |-> res.rrsets[k].rdatas])

VARIABLES l, zone, bad, nbad
vars == <<l, zone, bad, nbad>>
Init == l = 1 /\ zone = [apex |-> <<>>, state |-> "loaded", class |-> 1, recs |-> <<>>] /\ bad = <<>> /\ nbad = 0
Step(r) ==
  \/ /\ r.ev = "Cfg" /\ zone' = MkZ(r) /\ UNCHANGED <<bad, nbad>>
  \/ /\ r.ev = "Lk" /\ UNCHANGED zone
     /\ LET ok == LkOk(zone, r) IN
        /\ nbad' = IF ok THEN nbad ELSE nbad + 1
        /\ bad' = IF ok \/ Len(bad) >= 300 THEN bad ELSE Append(bad, <<l, {"C06"}>>)
Next == l <= Len(Rec) /\ Step(Rec[l]) /\ l' = l + 1
Spec == Init /\ [][Next]_vars
Report == l = Len(Rec) + 1 => PrintT(<<"REJECTED", nbad, bad>>)
====
