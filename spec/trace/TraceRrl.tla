---- MODULE TraceRrl ----
(* C26, C27, C28: executions of the real Server with response rate limiting on, against Rrl.tla.

   Sequential sessions (C26, C27):  Reset{rate (noerror/nxdomain/error), window, slip, size, p4, p6},
   Shift{secs, micros} (every bucket's last_refill moved into the past: simulated idle time),
   Req{transport, src, req, out, resp, tcp (the unlimited TCP answer to the same request), stream,
       t0, t1 (harness clock around the call, microseconds since session start), hook: the events the
       limiter emitted while holding the bucket lock}.
   The table is a function idx -> [key, count, window of possible last_refill times]. The clock read
   inside the code is only known to lie in [t0, t1]: the logged whole-second refill must be consistent
   with that window, and then the bucket arithmetic is deterministic.
   Concurrent bursts (C28): Burst{rate, window, n, full, limited, events ordered by the sequence number
   taken under the bucket lock}. *)
EXTENDS Rrl, Wire, Json, IOUtils
Rec == ndJsonDeserialize(IOEnv.TRACE)

Upd(f, k, v) == [x \in DOMAIN f \cup {k} |-> IF x = k THEN v ELSE f[x]]
EmptyFn == [x \in {} |-> 0]
TC(resp) == (resp[3] \div 2) % 2 = 1
RcodeOf(resp) == resp[4] % 16
Opcode(req) == (req[3] \div 8) % 16
RateFor(cfg, cat) == IF cat = 0 THEN cfg.noerror ELSE IF cat = 1 THEN cfg.nxdomain ELSE cfg.error

\* a slipped response: TC set, nothing but OPT / TSIG
SlipShape(resp) ==
  LET m == DecodeMessage(resp) IN
  /\ m.ok /\ TC(resp) /\ m.an = <<>> /\ m.ns = <<>>
  /\ \A i \in 1..Len(m.ar) : m.ar[i].type \in {41, 250}

\* One request. Returns [bad (set of property tags), table, names].
StepReq(cfg, shift, table, names, r) ==
  LET subject == r.transport = "udp" /\ Opcode(r.req) = 0
      hooks == SelectSeq(r.hook, LAMBDA h : h.ev = "Rrl") IN
  IF r.out = "panic" THEN [bad |-> {"C26", "C01"}, table |-> table, names |-> names]
  ELSE IF ~subject THEN
     \* never limited: no bucket is touched, the response is the ordinary one
     [bad |-> IF hooks = <<>> /\ r.out = "resp" /\ r.resp = r.direct THEN {} ELSE {"C27"}, table |-> table, names |-> names]
  ELSE IF Len(hooks) # 1 THEN [bad |-> {"C27"}, table |-> table, names |-> names]
  ELSE
  LET h == hooks[1]
      dest == Dest(r.src, cfg.p4, cfg.p6)
      \* the category of the response this request produces: by its EXTENDED rcode (BADVERS is an error, not NOERROR)
      dm == DecodeMessage(r.direct)
      dopt == IF dm.ok THEN SelectSeq(dm.ar, LAMBDA x : x.type = 41) ELSE <<>>
      cat == Category(RcodeOf(r.direct) + (IF dopt # <<>> THEN (dopt[1].ttlhi \div 256) * 16 ELSE 0))
      rate == RateFor(cfg, cat)
      \* harness clock + accumulated shift, as (seconds, microseconds); shift = <<seconds, microseconds>>
      s0 == shift[1] + (r.t0 + shift[2]) \div 1000000   u0 == (r.t0 + shift[2]) % 1000000
      s1 == shift[1] + (r.t1 + shift[2]) \div 1000000   u1 == (r.t1 + shift[2]) % 1000000
      key == <<h.ipv6, h.d0, h.d1, h.d2, h.d3, h.d4, h.d5, h.d6, h.d7, h.cat, h.qhash>>
      old == IF h.idx \in DOMAIN table THEN table[h.idx] ELSE [key |-> <<>>]
      hit == old.key = key
      \* C27: the key is what the documented stream definition prescribes
      keyOk == /\ h.ipv6 = dest.ipv6 /\ <<h.d0, h.d1, h.d2, h.d3, h.d4, h.d5, h.d6, h.d7>> = dest.d
               /\ h.cat = cat
               /\ (cat # 0 => h.qhash = "00000000")
               /\ (cat = 0 => /\ (h.qhash \in DOMAIN names => names[h.qhash] = r.stream)        \* same hash => same stream
                              /\ \A q \in DOMAIN names : names[q] = r.stream => q = h.qhash)   \* same stream => same hash
               /\ (h.hit = 1) = hit
      names2 == IF cat = 0 THEN Upd(names, h.qhash, r.stream) ELSE names
  IN
  \* a response put into the wrong category is limited by the wrong rate: that is C26's concern as much as C27's
  IF ~keyOk THEN [bad |-> IF h.cat # cat THEN {"C26", "C27"} ELSE {"C27"}, table |-> table, names |-> names]
  ELSE IF ~hit THEN
     [bad |-> IF h.action = "new" /\ h.after = 1 /\ r.out = "resp" /\ r.resp = r.direct THEN {} ELSE {"C26"},
      table |-> Upd(table, h.idx, [key |-> key, count |-> 1, ls0 |-> s0, lu0 |-> u0, ls1 |-> s1, lu1 |-> u1]),
      names |-> names2]
  ELSE
     LET emin == Elapsed(s0, u0, old.ls1, old.lu1)
         emax == Elapsed(s1, u1, old.ls0, old.lu0)
         secs == IF h.secs < 0 THEN 0 ELSE h.secs
         b == BucketStep(old.count, rate, cfg.window, secs)
         ok == /\ secs >= emin /\ secs <= emax            \* the code's whole seconds agree with the harness clock
               /\ h.before = old.count /\ h.after = b.count
               /\ IF b.send THEN h.action = "send" /\ r.out = "resp" /\ r.resp = r.direct
                  ELSE /\ h.action \in {"drop", "slip"}
                       /\ (cfg.slip = 0 => h.action = "drop") /\ (cfg.slip = 1 => h.action = "slip")
                       /\ (h.action = "drop" => r.out = "none")
                       /\ (h.action = "slip" => r.out = "resp" /\ SlipShape(r.resp))
     \* the table is only advanced on an accepted step (after a rejected one the rest of the session is skipped; a
     \* logged refill far outside the clock window must not be added to the times: 32-bit integers)
     IN [bad |-> IF ok THEN {} ELSE {"C26"},
         table |-> IF ok THEN Upd(table, h.idx, [old EXCEPT !.count = b.count, !.ls0 = @ + secs, !.ls1 = @ + secs]) ELSE table,
         names |-> names2]

\* ---- C28: the events of one burst, ordered by sequence number, must chain on the one bucket
RECURSIVE Chain(_, _, _, _, _)
Chain(evs, i, count, r, acc) ==      \* acc = [sent, refills]
  IF i > Len(evs) THEN [ok |-> TRUE, sent |-> acc.sent, refills |-> acc.refills]
  ELSE LET e == evs[i] IN
    IF e.ev # "Rrl" THEN Chain(evs, i + 1, count, r, acc)
    ELSE IF e.action = "new" THEN
         (IF count = 0 /\ e.after = 1 THEN Chain(evs, i + 1, 1, r, [acc EXCEPT !.sent = @ + 1]) ELSE [ok |-> FALSE, sent |-> 0, refills |-> 0])
    ELSE LET secs == IF e.secs < 0 THEN 0 ELSE e.secs
             b == BucketStep(count, r.rate, r.window, secs)
             acc2 == [sent |-> acc.sent + (IF b.send THEN 1 ELSE 0), refills |-> acc.refills + (IF secs > 0 THEN 1 ELSE 0)] IN
         IF e.before = count /\ e.after = b.count /\ (IF b.send THEN e.action = "send" ELSE e.action \in {"drop", "slip"})
         THEN Chain(evs, i + 1, b.count, r, acc2) ELSE [ok |-> FALSE, sent |-> 0, refills |-> 0]
\* r.primed = number of requests one thread sent on the stream before the burst (their events come first in r.events and are
\* not among the n requests of the burst; every bucket's last refill was then moved 1.2 s into the past)
BurstOk(r) ==
  LET c == Chain(r.events, 1, 0, r, [sent |-> 0, refills |-> 0])
      nev == Cardinality({i \in 1..Len(r.events) : r.events[i].ev = "Rrl"})
      psent == Min(r.primed, r.rate * r.window) IN
  /\ c.ok /\ r.panics = 0
  /\ nev = r.n + r.primed                            \* one bucket update per request: none lost, none doubled
  /\ c.sent = r.full + psent /\ r.full + r.limited = r.n
  /\ (c.refills = 0 => r.full = Min(r.n, r.rate * r.window))
  \* a primed burst that was over within 700 ms (its refill leaves 0.2 s on the clock) sees exactly the one refill that had come due, whoever gets there first
  /\ (r.primed > 0 /\ r.wall_ms < 700 => c.refills = 1)
  \* a burst that was over within 900 ms (thread start to last join) cannot have seen a whole second pass on the stream's
  \* own clock, which starts with its first response: no refill, however old the bucket it took over was
  /\ (r.primed = 0 /\ r.wall_ms < 900 => c.refills = 0)

VARIABLES l, cfg, shift, table, names, skipping, bad, nbad
vars == <<l, cfg, shift, table, names, skipping, bad, nbad>>
Init == /\ l = 1 /\ cfg = [window |-> 1] /\ shift = <<0, 0>> /\ table = EmptyFn /\ names = EmptyFn /\ skipping = FALSE
        /\ bad = <<>> /\ nbad = 0
Note(f) == /\ nbad' = IF f = {} THEN nbad ELSE nbad + 1
           /\ bad' = IF f = {} \/ Len(bad) >= 300 THEN bad ELSE Append(bad, <<l, f>>)
Next ==
  /\ l <= Len(Rec) /\ l' = l + 1
  /\ LET r == Rec[l] IN
     IF r.ev = "Reset" THEN cfg' = r /\ shift' = <<0, 0>> /\ table' = EmptyFn /\ names' = EmptyFn /\ skipping' = FALSE /\ UNCHANGED <<bad, nbad>>
     ELSE IF r.ev = "Burst" THEN Note(IF BurstOk(r) THEN {} ELSE {"C28"}) /\ UNCHANGED <<cfg, shift, table, names, skipping>>
     ELSE IF skipping THEN UNCHANGED <<cfg, shift, table, names, skipping, bad, nbad>>      \* after a rejected request the table is unknown until the next Reset
     ELSE IF r.ev = "Shift" THEN shift' = <<shift[1] + r.secs + (shift[2] + r.micros) \div 1000000, (shift[2] + r.micros) % 1000000>> /\ UNCHANGED <<cfg, table, names, skipping, bad, nbad>>
     ELSE LET s == StepReq(cfg, shift, table, names, r) IN
          /\ Note(s.bad) /\ table' = s.table /\ names' = s.names /\ skipping' = (s.bad # {})
          /\ UNCHANGED <<cfg, shift>>
Spec == Init /\ [][Next]_vars
Report == l = Len(Rec) + 1 => PrintT(<<"REJECTED", nbad, bad>>)
====
