INIT DInit
NEXT DNext
CHECK_DEADLOCK FALSE
