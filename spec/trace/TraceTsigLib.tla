---- MODULE TraceTsigLib ----
(* C11: the MAC produced by the writer in request / response / subsequent mode equals
   the RFC 8945 4.3 digest recomputed here (HMAC by the JDK override); verification of
   the (possibly tampered / truncated) message accepts exactly when the MAC matches the
   recomputation and the time is inside the fudge window. *)
EXTENDS Server, Json, IOUtils
Rec == ndJsonDeserialize(IOEnv.TRACE)

RECURSIVE Starts(_, _, _, _)
Starts(msg, c, n, acc) ==
  IF n = 0 THEN acc
  ELSE LET d == RRDelimit(msg, c) IN IF ~d.ok THEN <<>> ELSE Starts(msg, d.end, n - 1, Append(acc, c))

\* locate and split the TSIG RR (last record) of msg, exactly one question
Split(msg) ==
  IF Len(msg) < 12 \/ U16(msg, 4) # 1 THEN [ok |-> FALSE] ELSE
  LET q == DecodeName(msg, 12) IN
  IF ~q.ok \/ 12 + q.first + 4 > Len(msg) THEN [ok |-> FALSE] ELSE
  LET c0 == 12 + q.first + 4
      n == U16(msg, 6) + U16(msg, 8) + U16(msg, 10)
      st == Starts(msg, c0, n, <<>>) IN
  IF st = <<>> THEN [ok |-> FALSE]
  ELSE LET ts == st[Len(st)]  d == RRDelimit(msg, ts)  o == DecodeName(msg, ts) IN
       IF ~d.ok \/ d.type # 250 \/ ~o.ok \/ d.end # Len(msg) THEN [ok |-> FALSE]
       ELSE LET f == TsigFields(SubSeq(msg, d.ownerEnd + 11, d.end)) IN
            IF ~f.ok THEN [ok |-> FALSE] ELSE [ok |-> TRUE, start |-> ts, f |-> f, key |-> LowerName(o.name), d |-> d]

\* a TTL with the most significant bit set counts as zero (RFC 2181 section 8), as in Server!TsigStep
TtlZero(d) == d.ttlhi >= 32768 \/ (d.ttlhi = 0 /\ d.ttllo = 0)

Fails(r) ==
  LET s == Split(r.msg) IN
  IF ~s.ok THEN {"C11"}
  ELSE LET signOk == /\ r.mac = HMAC(r.alg, r.key, Digest(r.mode, r.msg, s.start, s.key, s.f, r.prior))
                     /\ s.f.mac = r.mac
                     /\ s.d.class = 255 /\ s.d.ttlhi = 0 /\ s.d.ttllo = 0
           v == Split(r.vmsg) IN
       IF ~signOk THEN {"C11"}
       ELSE IF r.verdict = "panic" THEN {"C11"}
       \* "unparsable" (no TSIG record could be read off the message: Reader / ReadTsigRr::try_from failed, or it names another
       \* algorithm) exactly when this specification cannot read one either; a TSIG record has class ANY and TTL 0 (RFC 8945 4.2)
       ELSE IF r.verdict = "unparsable"
            THEN (IF v.ok /\ v.d.class = 255 /\ TtlZero(v.d) /\ AlgOf(v.f.alg) = r.alg THEN {"C11"} ELSE {})
       ELSE IF ~v.ok \/ AlgOf(v.f.alg) # r.alg \/ v.d.class # 255 \/ ~TtlZero(v.d) THEN {"C11"}
       ELSE IF r.verdict = VerdictW(r.alg, r.key, Digest(r.mode, r.vmsg, v.start, v.key, v.f, r.prior), v.f, r.now) THEN {} ELSE {"C11"}

VARIABLES l, bad, nbad
Init == l = 1 /\ bad = <<>> /\ nbad = 0
Next == /\ l <= Len(Rec) /\ l' = l + 1
        /\ LET f == Fails(Rec[l]) IN
           /\ nbad' = IF f = {} THEN nbad ELSE nbad + 1
           /\ bad' = IF f = {} \/ Len(bad) >= 300 THEN bad ELSE Append(bad, <<l, f>>)
Spec == Init /\ [][Next]_<<l, bad, nbad>>
Report == l = Len(Rec) + 1 => PrintT(<<"REJECTED", nbad, bad>>)
====
