---- MODULE TraceWriter ----
(* C12 + C13: one record = one sequence of Writer operations with results and
   verif_state before/after, plus the finished octets. *)
EXTENDS Writer, Json, IOUtils
Rec == ndJsonDeserialize(IOEnv.TRACE)
Chk(tag, cond) == IF cond THEN {} ELSE {tag}

Fails(r) ==
  IF r.out # "ok" THEN {"C12"}
  ELSE
  LET s == Run(S0, r.ops, 1)
      d == DecodeMessageG(r.msg, FALSE)
      lastLimit == IF r.ops = <<>> THEN r.limit ELSE r.ops[Len(r.ops)].limit
      items == [i \in 1..Len(s.qs) |-> s.qs[i].mode] \o [i \in 1..Len(s.rrs) |-> s.rrs[i].mode]
      disabled == {i \in 1..Len(items) : items[i] = 2}
  IN
  IF ~s.ok THEN {"C12"} \* \cup {s.why}
  \* a finished message the RFC 1035 decoder cannot read: names are the only thing that can make it fail once the
  \* record boundaries are in place (a pointer that does not lead strictly backwards, a label that runs past the
  \* end), so the C13 check claims this tag as well
  ELSE IF ~d.ok THEN {"C12", "C12:undecodable"}
  ELSE
  LET opt == SelectSeq(d.ar, LAMBDA x : x.type = 41) IN
  Chk("C12",
     /\ StateOk(r.ops, 1, r.buflen)
     /\ Len(r.msg) <= lastLimit
     /\ d.id = s.id /\ (Bit(d.flags, 32768) = 1) = s.qr /\ (d.flags \div 2048) % 16 = s.opcode
     /\ (Bit(d.flags, 1024) = 1) = s.aa /\ (Bit(d.flags, 512) = 1) = s.tc /\ (Bit(d.flags, 256) = 1) = s.rd /\ (Bit(d.flags, 128) = 1) = s.ra
     /\ (d.flags \div 16) % 8 = 0 /\ d.flags % 16 = s.rcode
     /\ QMatches(s.qs, d.qs)
     /\ SeqMatches(SecOf(s, 0), d.an) /\ SeqMatches(SecOf(s, 1), d.ns)
     /\ SeqMatches(SecOf(s, 2), SelectSeq(d.ar, LAMBDA x : x.type # 41))
     /\ Len(opt) = (IF s.edns THEN 1 ELSE 0)
     /\ (s.edns => /\ d.ar[Len(d.ar)].type = 41 /\ opt[1].owner = <<>> /\ opt[1].class = s.payload
                   /\ opt[1].ttlhi = s.xhi * 256 /\ opt[1].ttllo = 0 /\ opt[1].rdata = <<>>)
     /\ (~s.edns => s.xhi = 0 \/ TRUE))
  \cup Chk("C13", PointersOk(r.msg, disabled))
  \cup Chk("C13", /\ NamesMatch(SecOf(s, 0), d.an) /\ NamesMatch(SecOf(s, 1), d.ns)
                  /\ NamesMatch(SecOf(s, 2), SelectSeq(d.ar, LAMBDA x : x.type # 41)))

VARIABLES l, bad, nbad
Init == l = 1 /\ bad = <<>> /\ nbad = 0
Next == /\ l <= Len(Rec) /\ l' = l + 1
        /\ LET f == Fails(Rec[l]) IN
           /\ nbad' = IF f = {} THEN nbad ELSE nbad + 1
           /\ bad' = IF f = {} \/ Len(bad) >= 300 THEN bad ELSE Append(bad, <<l, f>>)
Spec == Init /\ [][Next]_<<l, bad, nbad>>
Report == l = Len(Rec) + 1 => PrintT(<<"REJECTED", nbad, bad>>)
====
