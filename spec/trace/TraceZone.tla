---- MODULE TraceZone ----
(* C20 + C21: one record = one zone: the add history with results, the full iteration,
   apex SOA/NS accessors, and the validation issues. *)
EXTENDS ZoneStore, Json, IOUtils
Rec == ndJsonDeserialize(IOEnv.TRACE)
Chk(tag, cond) == IF cond THEN {} ELSE {tag}

ApexSet(z, t, j) ==     \* soa() / ns(): [has, ttl, rdatas]
  LET e == RRsetAt(z, z.apex, t) IN
  IF e = <<>> THEN ~j.has
  ELSE j.has /\ j.ttl = e[1].ttl /\ [k \in 1..Len(j.rdatas) |-> CanonRdata(t, j.rdatas[k])] = [k \in 1..Len(e) |-> e[k].rdata]

Fails(r) ==
  LET z0 == [apex |-> LowerName(ParseName(r.apex).name), state |-> "loaded", class |-> r.class, recs |-> <<>>]
      b == Build(z0, r.adds, 1)
      z == b.z IN
  IF ~b.ok THEN {"C20"}
  ELSE
  LET v == Validate(z, r.wide)
      got == {<<r.val.issues[k].k, IF r.val.issues[k].k \in {"MissingApexSoa", "TooManyApexSoas", "MissingApexNs"} THEN <<>> ELSE LowerName(ParseName(r.val.issues[k].n).name)>> : k \in 1..Len(r.val.issues)}
  IN
  Chk("C20", /\ IterOk(z, r.nodes)
             /\ r.nrr = NRrsets(z)
             \* iter_by_rrset yields exactly the (node, type) pairs of iter_by_node, each once
             /\ Len(r.flat) = r.nrr
             /\ {<<LowerName(ParseName(r.flat[k].name).name), r.flat[k].type, r.flat[k].n>> : k \in 1..Len(r.flat)}
                  = {<<z.recs[k].owner, z.recs[k].type, Len(RRsetAt(z, z.recs[k].owner, z.recs[k].type))>> : k \in 1..Len(z.recs)}
             /\ ApexSet(z, 6, r.soa) /\ ApexSet(z, 2, r.ns))
  \cup Chk("C21", /\ r.val.ok = v.ok
                  /\ (v.ok => got = v.issues)
                  /\ \A k \in 1..Len(r.val.issues) : r.val.issues[k].err = IsErrorKind(r.val.issues[k].k))

VARIABLES l, bad, nbad
Init == l = 1 /\ bad = <<>> /\ nbad = 0
Next == /\ l <= Len(Rec) /\ l' = l + 1
        /\ LET f == Fails(Rec[l]) IN
           /\ nbad' = IF f = {} THEN nbad ELSE nbad + 1
           /\ bad' = IF f = {} \/ Len(bad) >= 300 THEN bad ELSE Append(bad, <<l, f>>)
Spec == Init /\ [][Next]_<<l, bad, nbad>>
Report == l = Len(Rec) + 1 => PrintT(<<"REJECTED", nbad, bad>>)
====
