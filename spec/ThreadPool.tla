---- MODULE ThreadPool ----
(* The worker pool and thread group of thread.rs, shaped after the code: one action per critical
   section. Mutexes are implicit (an action is one critical section); condition variables are
   waiter sets: notify_one wakes any one waiter or nobody, notify_all empties the set, a waiter may
   also leave by itself (spurious wake-up) or - for wait_timeout - with the timed_out flag set
   (WTimeoutFire), and re-acquires the mutex in a separate step (WReacquire). submit_or_spawn is
   two critical sections (pool: SSos, then group: SSpawn). Processes: one submitter per task
   (Kind[t] = "submit" blocks for a worker, "sos" = submit_or_spawn), NPerm permanent workers
   (respawned while the group is not shutting down), one auxiliary worker per spawned task (lingers
   when Linger), a shutdown caller and an awaiter.
   Variant "as_found": a lingering worker whose wait timed out leaves without re-checking the queue
   (the stranded-task race); "fixed": it takes the queued task instead.
   Properties (C29): AtMostOnce, AcceptedRanAtAwait, AwaitMeansNoThreads, RejectedAfterShutdown,
   AvailCoversQueue; liveness under weak fairness of thread steps (not of timeouts or spurious
   wake-ups): EventuallyAwaited, EventuallyAllRan. *)
EXTENDS Naturals, Sequences, FiniteSets, TLC

CONSTANTS NPerm,        \* number of permanent workers
          Linger,       \* BOOLEAN: auxiliary workers linger
          Tasks,        \* set of task ids
          Kind,         \* [Tasks -> {"submit","sos"}]
          Variant       \* "as_found" | "fixed"

Perm == 1..NPerm
Sub(t) == <<"sub", t>>      \* one submitting thread per task
Aux(t) == <<"aux", t>>      \* auxiliary worker spawned for task t
PermW(i) == <<"perm", i>>
Workers == {PermW(i) : i \in Perm} \cup {Aux(t) : t \in Tasks}
Subs == {Sub(t) : t \in Tasks}

VARIABLES
  queue, avail, poolSD,          \* PoolRecords
  threadCount, groupSD,          \* GroupRecords
  cvTask, cvAvail,               \* waiter sets
  wpc, timedOut, cur,            \* per worker: pc, timed_out flag, current task
  spc, res,                      \* per submitter: pc, result
  ran, accepted,                 \* observation
  sdCalled, awaited, startedAfterSD

vars == <<queue, avail, poolSD, threadCount, groupSD, cvTask, cvAvail, wpc, timedOut, cur,
          spc, res, ran, accepted, sdCalled, awaited, startedAfterSD>>

Init ==
  /\ queue = <<>> /\ avail = 0 /\ poolSD = FALSE
  /\ threadCount = NPerm /\ groupSD = FALSE
  /\ cvTask = {} /\ cvAvail = {}
  /\ wpc = [w \in Workers |-> IF w[1] = "perm" THEN "top" ELSE "unborn"]
  /\ timedOut = [w \in Workers |-> FALSE]
  /\ cur = [w \in Workers |-> 0]
  /\ spc = [s \in Subs |-> "idle"]
  /\ res = [s \in Subs |-> "none"]
  /\ ran = [t \in Tasks |-> 0]
  /\ accepted = {}
  /\ sdCalled = FALSE /\ awaited = FALSE
  /\ startedAfterSD = {}

IsAux(w) == w[1] = "aux"
HasDeadline(w) == IsAux(w) /\ Linger

\* notify_one on a waiter set: wake any one waiter (or nobody if empty)
\* Woken workers go to "reacq" with timedOut FALSE.

\* ---------------- worker ----------------
\* top of pool_worker_loop: lock; available += 1; available_wakeup.notify_one(); then inner check
WTop(w) ==
  /\ wpc[w] = "top"
  /\ avail' = avail + 1
  /\ \/ /\ cvAvail = {} /\ UNCHANGED <<cvAvail, spc>>
     \/ \E s \in cvAvail : /\ cvAvail' = cvAvail \ {s} /\ spc' = [spc EXCEPT ![s] = "retry"]
  /\ wpc' = [wpc EXCEPT ![w] = "check"]
  /\ UNCHANGED <<queue, poolSD, threadCount, groupSD, cvTask, timedOut, cur, res, ran, accepted, sdCalled, awaited, startedAfterSD>>

\* inner loop body, still the same critical section as WTop or after a wake-up
WCheck(w) ==
  /\ wpc[w] = "check"
  /\ IF queue # <<>> THEN
        /\ cur' = [cur EXCEPT ![w] = Head(queue)]
        /\ queue' = Tail(queue)
        /\ avail' = avail - 1
        /\ wpc' = [wpc EXCEPT ![w] = "run"]
        /\ UNCHANGED <<cvTask>>
     ELSE IF poolSD THEN
        /\ wpc' = [wpc EXCEPT ![w] = "exit"]     \* note: available not decremented (as in code)
        /\ UNCHANGED <<cur, queue, avail, cvTask>>
     ELSE
        /\ cvTask' = cvTask \cup {w}
        /\ wpc' = [wpc EXCEPT ![w] = "waiting"]
        /\ UNCHANGED <<cur, queue, avail>>
  /\ UNCHANGED <<poolSD, threadCount, groupSD, cvAvail, timedOut, spc, res, ran, accepted, sdCalled, awaited, startedAfterSD>>

\* deadline already passed when about to wait (aux+linger only)
WDeadlinePassed(w) ==
  /\ wpc[w] = "check" /\ HasDeadline(w) /\ queue = <<>> /\ ~poolSD
  /\ avail' = avail - 1
  /\ wpc' = [wpc EXCEPT ![w] = "exit"]
  /\ UNCHANGED <<queue, poolSD, threadCount, groupSD, cvTask, cvAvail, timedOut, cur, spc, res, ran, accepted, sdCalled, awaited, startedAfterSD>>

\* spurious wake-up or timeout: the waiter leaves the wait set by itself
WSpurious(w) ==
  /\ wpc[w] = "waiting" /\ w \in cvTask
  /\ cvTask' = cvTask \ {w}
  /\ wpc' = [wpc EXCEPT ![w] = "reacq"]
  /\ timedOut' = [timedOut EXCEPT ![w] = FALSE]
  /\ UNCHANGED <<queue, avail, poolSD, threadCount, groupSD, cvAvail, cur, spc, res, ran, accepted, sdCalled, awaited, startedAfterSD>>

WTimeoutFire(w) ==
  /\ wpc[w] = "waiting" /\ w \in cvTask /\ HasDeadline(w)
  /\ cvTask' = cvTask \ {w}
  /\ wpc' = [wpc EXCEPT ![w] = "reacq"]
  /\ timedOut' = [timedOut EXCEPT ![w] = TRUE]
  /\ UNCHANGED <<queue, avail, poolSD, threadCount, groupSD, cvAvail, cur, spc, res, ran, accepted, sdCalled, awaited, startedAfterSD>>

\* re-acquire the mutex after the wait
WReacquire(w) ==
  /\ wpc[w] = "reacq"
  /\ IF timedOut[w] /\ (Variant = "as_found" \/ queue = <<>>) THEN
        /\ avail' = avail - 1
        /\ wpc' = [wpc EXCEPT ![w] = "exit"]
     ELSE
        /\ wpc' = [wpc EXCEPT ![w] = "check"]
        /\ UNCHANGED avail
  /\ UNCHANGED <<queue, poolSD, threadCount, groupSD, cvTask, cvAvail, timedOut, cur, spc, res, ran, accepted, sdCalled, awaited, startedAfterSD>>

WRun(w) ==
  /\ wpc[w] = "run"
  /\ ran' = [ran EXCEPT ![cur[w]] = @ + 1]
  /\ wpc' = [wpc EXCEPT ![w] = IF IsAux(w) /\ ~Linger /\ cur[w] = w[2] /\ FALSE THEN "exit" ELSE "top"]
  /\ UNCHANGED <<queue, avail, poolSD, threadCount, groupSD, cvTask, cvAvail, timedOut, cur, spc, res, accepted, sdCalled, awaited, startedAfterSD>>

\* auxiliary thread: first task, then linger loop or exit
AuxFirst(w) ==
  /\ wpc[w] = "first"
  /\ ran' = [ran EXCEPT ![w[2]] = @ + 1]
  /\ wpc' = [wpc EXCEPT ![w] = IF Linger THEN "top" ELSE "exit"]
  /\ UNCHANGED <<queue, avail, poolSD, threadCount, groupSD, cvTask, cvAvail, timedOut, cur, spc, res, accepted, sdCalled, awaited, startedAfterSD>>

\* thread exit: OneshotHandle / RespawnableHandle drop -> group critical section
\* (permanent workers only leave the loop when the pool is shutting down; respawn if the group is not)
WExit(w) ==
  /\ wpc[w] = "exit"
  /\ IF ~IsAux(w) /\ ~groupSD THEN
        \* respawn: thread_count +1 (new) -1 (old): same identity reused
        /\ wpc' = [wpc EXCEPT ![w] = "top"]
        /\ UNCHANGED threadCount
     ELSE
        /\ threadCount' = threadCount - 1
        /\ wpc' = [wpc EXCEPT ![w] = "dead"]
  /\ UNCHANGED <<queue, avail, poolSD, groupSD, cvTask, cvAvail, timedOut, cur, spc, res, ran, accepted, sdCalled, awaited, startedAfterSD>>

\* ---------------- submitters ----------------
Task(s) == s[2]

SStart(s) ==
  /\ spc[s] = "idle"
  /\ spc' = [spc EXCEPT ![s] = "retry"]
  /\ startedAfterSD' = IF sdCalled THEN startedAfterSD \cup {s} ELSE startedAfterSD
  /\ UNCHANGED <<queue, avail, poolSD, threadCount, groupSD, cvTask, cvAvail, wpc, timedOut, cur, res, ran, accepted, sdCalled, awaited>>

Push(s) ==
  /\ queue' = Append(queue, Task(s))
  /\ accepted' = accepted \cup {Task(s)}
  /\ \/ /\ cvTask = {} /\ UNCHANGED <<cvTask, wpc, timedOut>>
     \/ \E w \in cvTask : /\ cvTask' = cvTask \ {w}
                          /\ wpc' = [wpc EXCEPT ![w] = "reacq"]
                          /\ timedOut' = [timedOut EXCEPT ![w] = FALSE]

\* ThreadPool::submit critical section
SSubmit(s) ==
  /\ spc[s] = "retry" /\ Kind[Task(s)] = "submit"
  /\ IF poolSD THEN
        /\ spc' = [spc EXCEPT ![s] = "done"] /\ res' = [res EXCEPT ![s] = "rejected"]
        /\ UNCHANGED <<queue, accepted, cvTask, wpc, timedOut, cvAvail>>
     ELSE IF avail > Len(queue) THEN
        /\ Push(s)
        /\ spc' = [spc EXCEPT ![s] = "done"] /\ res' = [res EXCEPT ![s] = "ok"]
        /\ UNCHANGED cvAvail
     ELSE
        /\ cvAvail' = cvAvail \cup {s}
        /\ spc' = [spc EXCEPT ![s] = "waiting"]
        /\ UNCHANGED <<queue, accepted, cvTask, wpc, timedOut, res>>
  /\ UNCHANGED <<avail, poolSD, threadCount, groupSD, cur, ran, sdCalled, awaited, startedAfterSD>>

SSpurious(s) ==
  /\ spc[s] = "waiting" /\ s \in cvAvail
  /\ cvAvail' = cvAvail \ {s}
  /\ spc' = [spc EXCEPT ![s] = "retry"]
  /\ UNCHANGED <<queue, avail, poolSD, threadCount, groupSD, cvTask, wpc, timedOut, cur, res, ran, accepted, sdCalled, awaited, startedAfterSD>>

\* ThreadPool::submit_or_spawn, pool critical section
SSos(s) ==
  /\ spc[s] = "retry" /\ Kind[Task(s)] = "sos"
  /\ IF poolSD THEN
        /\ spc' = [spc EXCEPT ![s] = "done"] /\ res' = [res EXCEPT ![s] = "rejected"]
        /\ UNCHANGED <<queue, accepted, cvTask, wpc, timedOut>>
     ELSE IF avail > Len(queue) THEN
        /\ Push(s)
        /\ spc' = [spc EXCEPT ![s] = "done"] /\ res' = [res EXCEPT ![s] = "ok"]
     ELSE
        /\ spc' = [spc EXCEPT ![s] = "spawn"]
        /\ UNCHANGED <<queue, accepted, cvTask, wpc, timedOut, res>>
  /\ UNCHANGED <<avail, poolSD, threadCount, groupSD, cvAvail, cur, ran, sdCalled, awaited, startedAfterSD>>

\* ... then ThreadGroup::start_oneshot, group critical section
SSpawn(s) ==
  /\ spc[s] = "spawn"
  /\ IF groupSD THEN
        /\ res' = [res EXCEPT ![s] = "rejected"]
        /\ UNCHANGED <<threadCount, wpc, accepted>>
     ELSE
        /\ threadCount' = threadCount + 1
        /\ wpc' = [wpc EXCEPT ![Aux(Task(s))] = "first"]
        /\ accepted' = accepted \cup {Task(s)}
        /\ res' = [res EXCEPT ![s] = "ok"]
  /\ spc' = [spc EXCEPT ![s] = "done"]
  /\ UNCHANGED <<queue, avail, poolSD, groupSD, cvTask, cvAvail, timedOut, cur, ran, sdCalled, awaited, startedAfterSD>>

\* ---------------- shutdown ----------------
\* ThreadGroup::shut_down (group lock, then each pool lock inside it)
ShutDown ==
  /\ ~sdCalled
  /\ sdCalled' = TRUE /\ groupSD' = TRUE /\ poolSD' = TRUE
  /\ cvTask' = {} /\ cvAvail' = {}
  /\ wpc' = [w \in Workers |-> IF w \in cvTask THEN "reacq" ELSE wpc[w]]
  /\ timedOut' = [w \in Workers |-> IF w \in cvTask THEN FALSE ELSE timedOut[w]]
  /\ spc' = [s \in Subs |-> IF s \in cvAvail THEN "retry" ELSE spc[s]]
  /\ UNCHANGED <<queue, avail, threadCount, cur, res, ran, accepted, awaited, startedAfterSD>>

Await ==
  /\ sdCalled /\ ~awaited /\ groupSD /\ threadCount = 0
  /\ awaited' = TRUE
  /\ UNCHANGED <<queue, avail, poolSD, threadCount, groupSD, cvTask, cvAvail, wpc, timedOut, cur, spc, res, ran, accepted, sdCalled, startedAfterSD>>

Next ==
  \/ \E w \in Workers : WTop(w) \/ WCheck(w) \/ WDeadlinePassed(w) \/ WSpurious(w) \/ WTimeoutFire(w)
                        \/ WReacquire(w) \/ WRun(w) \/ AuxFirst(w) \/ WExit(w)
  \/ \E s \in Subs : SStart(s) \/ SSubmit(s) \/ SSos(s) \/ SSpawn(s) \/ SSpurious(s)
  \/ ShutDown \/ Await

\* fairness: every thread step except spurious wake-ups / timeouts / deadline / caller choices
Fair ==
  /\ \A w \in Workers : WF_vars(WTop(w)) /\ WF_vars(WCheck(w)) /\ WF_vars(WReacquire(w))
                        /\ WF_vars(WRun(w)) /\ WF_vars(AuxFirst(w)) /\ WF_vars(WExit(w))
  /\ \A s \in Subs : WF_vars(SSubmit(s)) /\ WF_vars(SSos(s)) /\ WF_vars(SSpawn(s))
  /\ WF_vars(ShutDown) /\ WF_vars(Await)

Spec == Init /\ [][Next]_vars /\ Fair

\* ---------------- properties ----------------
AtMostOnce == \A t \in Tasks : ran[t] <= 1
AcceptedRanAtAwait == awaited => \A t \in accepted : ran[t] = 1
AwaitMeansNoThreads == awaited => (threadCount = 0 /\ \A w \in Workers : wpc[w] \in {"dead", "unborn"})
RejectedAfterShutdown == \A s \in startedAfterSD : res[s] \in {"none", "rejected"}
AvailCoversQueue == Variant = "fixed" => avail >= Len(queue)
EventuallyAwaited == <>awaited
EventuallyAllRan == <>(\A t \in accepted : ran[t] = 1)
====
