CONSTANT Zones <- ZonesDef
CONSTANTS
  MaxVersion = 3
  Clients = {1}
  Variant = "mutant"
SPECIFICATION Spec
INVARIANTS Linearizable Fresh ReloadAtomic PerZone
PROPERTY OnlyConfigured
CHECK_DEADLOCK FALSE
