CONSTANTS
  MaxVersion = 2
  Variant = "fixed"
CONSTANT Zones <- Zones4
SPECIFICATION Spec
INVARIANTS ExactlyConfigured Independent
CHECK_DEADLOCK FALSE
