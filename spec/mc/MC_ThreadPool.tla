---- MODULE MC_ThreadPool ----
(* function-valued constants of ThreadPool that cannot be written in a .cfg *)
EXTENDS ThreadPool
KindMixed == [t \in Tasks |-> IF t % 2 = 1 THEN "sos" ELSE "submit"]
KindSos == [t \in Tasks |-> "sos"]
KindSubmit == [t \in Tasks |-> "submit"]
====
