---- MODULE MC_Rrl ----
(* C26, design level: the bucket as implemented (count of used tokens, last_refill, whole-second
   refill with sub-second compensation, saturating subtraction) makes the same send/limit decision
   and holds the same count as the abstract token bucket that is topped up at every whole second
   since its creation, for every request-time history over the gap set (time in ticks, K ticks per
   second, including gaps that make rate x seconds exceed the word size).
   Variant "as_found" multiplies modulo Mod (a scaled-down 2^32) like the unrepaired code without
   overflow checks; it is expected to violate SameDecision. *)
EXTENDS Rrl, TLC
CONSTANTS Rate, Window, K, Gaps, MaxReq, Variant, Mod
Limit == Rate * Window
Sub(a, b) == IF b >= a THEN 0 ELSE a - b          \* saturating

VARIABLES now, n, implCount, implLast, absUsed, absApplied, t0, decisions
vars == <<now, n, implCount, implLast, absUsed, absApplied, t0, decisions>>

Init == now = 0 /\ n = 0 /\ implCount = 0 /\ implLast = 0 /\ absUsed = 0 /\ absApplied = 0 /\ t0 = 0 /\ decisions = <<>>

ImplRefill(count, secs) == IF Variant = "as_found" THEN Sub(count, (Rate * secs) % Mod) ELSE Refill(count, Rate, secs)

First(g) ==      \* the first response of the stream creates the entry
  /\ n = 0 /\ now' = now + g /\ n' = 1
  /\ implCount' = 1 /\ implLast' = now + g
  /\ absUsed' = 1 /\ absApplied' = 0 /\ t0' = now + g
  /\ decisions' = <<>>

Request(g) ==
  /\ n > 0 /\ n < MaxReq /\ now' = now + g /\ n' = n + 1
  /\ LET since == now' - implLast
         secs == since \div K
         c1 == IF since >= K THEN ImplRefill(implCount, secs) ELSE implCount
         last1 == IF since >= K THEN now' - (since % K) ELSE implLast
         implSend == c1 < Limit
         due == (now' - t0) \div K                       \* whole seconds since creation
         u1 == Sub(absUsed, Rate * (due - absApplied))
         absSend == u1 < Limit
     IN /\ implCount' = IF implSend THEN c1 + 1 ELSE c1
        /\ implLast' = last1
        /\ absUsed' = IF absSend THEN u1 + 1 ELSE u1
        /\ absApplied' = due
        /\ decisions' = <<implSend, absSend>>
        /\ UNCHANGED t0

Next == \E g \in Gaps : First(g) \/ Request(g)
Spec == Init /\ [][Next]_vars
SameDecision == decisions # <<>> => decisions[1] = decisions[2]
SameCount == n > 0 => implCount = absUsed
Bounded == implCount <= Limit
\* the operator the trace specification uses is the same function as the implementation-shaped step
StepAgrees == \A c \in 0..Limit, s \in {0, 1, 2, 3, 200} :
                LET b == BucketStep(c, Rate, Window, s) IN
                b.send = (Refill(c, Rate, s) < Limit) /\ b.count <= Limit
====
