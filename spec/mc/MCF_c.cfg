CONSTANT Lens <- LensB
CONSTANTS
  NoResp = {5}
  Variant = "impl"
SPECIFICATION Spec
INVARIANTS PrefixOk NextIsRight
PROPERTY Delivered
CHECK_DEADLOCK FALSE
