CONSTANTS
  Rate = 2
  Window = 2
  K = 5
  Gaps = {0, 2, 3, 5, 13, 160}
  MaxReq = 8
  Variant = "as_found"
  Mod = 64
SPECIFICATION Spec
INVARIANTS SameDecision SameCount Bounded StepAgrees
CHECK_DEADLOCK FALSE
