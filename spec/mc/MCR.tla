---- MODULE MCR ----
EXTENDS MC_Reload
ZonesDef == {<<"p">>, <<"p", "c">>, <<"q">>}
Zones4 == {<<"p">>, <<"p", "c">>, <<"p", "c", "d">>, <<"q">>}
====
