CONSTANTS
  Rate = 2
  Window = 2
  K = 5
  Gaps = {0, 3, 5, 7, 13}
  MaxReq = 5
  Variant = "fixed"
  Mod = 64
SPECIFICATION Spec
INVARIANTS SameDecision SameCount Bounded StepAgrees
CHECK_DEADLOCK FALSE
