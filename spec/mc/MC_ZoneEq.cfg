CONSTANTS
  Variant = "impl"
  MaxDepth = 2
  MaxRecs = 3
  TypeSet = {1, 2, 5}
SPECIFICATION Spec
INVARIANT Equiv
CHECK_DEADLOCK FALSE
