---- MODULE MC_WriterSpace ----
(* (M) every sequence of Writer operations over small sizes; (G) its state graph is replayed into the real Writer
   (qv writer replay) and the recorded (cursor, available, limit) triples and results are validated by TraceWriterSpace. *)
EXTENDS WriterSpace
====
