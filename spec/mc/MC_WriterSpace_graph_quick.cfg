CONSTANTS
  BufLen = 140
  QSizes = {5}
  RSizes = {40}
  TsigLens = {74}
  Limits = {57, 125, 200}
  Bufs = {100, 140}
  Variant = "impl"
SPECIFICATION Spec
INVARIANTS Ordered ReservedKept FinishedFits ReservedUsedExactly
CHECK_DEADLOCK FALSE
