CONSTANTS
  BufLen = 140
  QSizes = {5}
  RSizes = {11, 40}
  TsigLens = {74}
  Limits = {12, 57, 120, 200}
  Bufs = {100, 140}
  Variant = "impl"
SPECIFICATION Spec
INVARIANTS Ordered ReservedKept FinishedFits ReservedUsedExactly
CHECK_DEADLOCK FALSE
