CONSTANT Lens <- LensA
CONSTANTS
  NoResp = {}
  Variant = "mutant"
SPECIFICATION Spec
INVARIANTS PrefixOk NextIsRight
PROPERTY Delivered
CHECK_DEADLOCK FALSE
