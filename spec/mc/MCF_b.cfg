CONSTANT Lens <- LensA
CONSTANTS
  NoResp = {3}
  Variant = "impl"
SPECIFICATION Spec
INVARIANTS PrefixOk NextIsRight
PROPERTY Delivered
CHECK_DEADLOCK FALSE
