---- MODULE MCC ----
(* constants of MC_Catalog that cannot be written in a .cfg (tuples) *)
EXTENDS MC_Catalog
\* ".", "a.", "b.a.", "c.b.a.", "d.a.", "e."  (leaf first)
Names6 == {<<>>, <<<<97>>>>, <<<<98>>, <<97>>>>, <<<<99>>, <<98>>, <<97>>>>, <<<<100>>, <<97>>>>, <<<<101>>>>}
Names4 == {<<>>, <<<<97>>>>, <<<<98>>, <<97>>>>, <<<<101>>>>}
====
