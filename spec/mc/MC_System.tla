---- MODULE MC_System ----
EXTENDS System
ZonesDef == {<<"p">>, <<"p", "c">>}
====
