---- MODULE MC_NameBuilder ----
(* (M) every sequence of NameBuilder operations - continuing after errors - for scaled-down limits: the state stays
   within the limits, a failed operation changes nothing, and whatever finish / finish_with_suffix return is a valid
   absolute name that spells exactly the labels pushed. *)
EXTENDS NameBuilder, TLC
CONSTANTS Octets, Slices, Suffixes
VARIABLES s, last, out
vars == <<s, last, out>>
Init == s = New /\ last = "ok" /\ out = <<>>
DoPush(o) == LET r == Push(s, o) IN s' = r.st /\ last' = r.res /\ out' = <<>>
DoNext == LET r == NextLabel(s) IN s' = r.st /\ last' = r.res /\ out' = <<>>
DoFinish == LET r == Finish(s) IN s' = r.st /\ last' = r.res /\ out' = IF r.res = "ok" THEN <<r.name>> ELSE <<>>
DoSuffix(x) == LET r == FinishWithSuffix(s, x) IN s' = r.st /\ last' = r.res /\ out' = IF r.res = "ok" THEN <<r.name>> ELSE <<>>
Next == \/ \E o \in Octets : DoPush(<<o>>)
        \/ \E sl \in Slices : DoPush(sl)
        \/ DoNext \/ DoFinish
        \/ \E x \in Suffixes : DoSuffix(x)
Spec == Init /\ [][Next]_vars

WithinLimits == Len(s.cur) <= MaxLabel /\ (~s.broken => Fill(s) <= MaxWire) /\ \A i \in 1..Len(s.done) : s.done[i] # <<>>
FinishedValid == out # <<>> => ValidName(out[1])
FailureIsNoop == [][last' # "ok" => s' = s]_vars
====
