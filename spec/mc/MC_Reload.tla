---- MODULE MC_Reload ----
(* C31, design level: for every history of reloads (any configured subset in any order, any subset
   of it loading successfully) the catalog built by load_impl equals the declarative expectation,
   and one zone's failure never changes another zone's entry. Variant "as_found" must violate
   ExactlyConfigured. *)
EXTENDS Reload, TLC
CONSTANTS Zones, MaxVersion, Variant
VARIABLES cat, version
vars == <<cat, version>>
Init == cat = [z \in {} |-> Fail] /\ version = 0

Perms(S) == {s \in [1..Cardinality(S) -> S] : \A i, j \in 1..Cardinality(S) : i # j => s[i] # s[j]}
ValidMap(valid) == [z \in valid |-> version + 1]

Reload(order, valid) ==
  /\ version < MaxVersion
  /\ cat' = NewCat(cat, order, ValidMap(valid), Variant) /\ version' = version + 1
Next == \E config \in SUBSET Zones : \E order \in Perms(config) : \E valid \in SUBSET config : Reload(order, valid)
Spec == Init /\ [][Next]_vars

ExactlyConfigured ==
  \A config \in SUBSET Zones : \A order \in Perms(config) : \A valid \in SUBSET config :
     NewCat(cat, order, ValidMap(valid), Variant) = Expected(cat, config, ValidMap(valid))
\* a zone's failure never changes what another zone serves
Independent ==
  \A config \in SUBSET Zones : \A order \in Perms(config) : \A valid \in SUBSET config : \A z \in valid :
     LET a == NewCat(cat, order, ValidMap(valid), Variant)
         b == NewCat(cat, order, ValidMap(valid \ {z}), Variant) IN
     \A y \in config \ {z} : (y \in DOMAIN a) = (y \in DOMAIN b) /\ (y \in DOMAIN a => a[y] = b[y])
====
