CONSTANT Lens <- LensA
CONSTANTS
  NoResp = {}
  Variant = "impl"
SPECIFICATION Spec
INVARIANTS PrefixOk NextIsRight
PROPERTY Delivered
CHECK_DEADLOCK FALSE
