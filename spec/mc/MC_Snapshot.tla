---- MODULE MC_Snapshot ----
(* C32, design level: Server::catalog / set_catalog (RwLock<Arc<C>>). A handler takes ONE snapshot
   per message (an atomic read of the shared pointer) and builds all three sections from it; a swapper
   publishes new generations (an atomic write). Every interleaving of Handlers handlers and the
   swapper up to MaxGen generations:
     OneSnapshot - the sections of a finished response all carry one generation;
     Fresh       - that generation is not older than the one committed when the handler began
                   (a request handled after a replacement returned uses the new catalog);
     WindowSound - the generation lies in the window the trace specification computes (committed at begin,
                   in flight at begin, or begun before the snapshot), i.e. TraceSnapshot can never raise
                   a false alarm and never accept a stale snapshot.
   Variant "mutant" re-reads the shared pointer for every section (expected to violate OneSnapshot). *)
EXTENDS Naturals, FiniteSets, Sequences, TLC
CONSTANTS Handlers, MaxGen, Variant
VARIABLES shared,      \* the generation the shared pointer refers to
          committed,   \* last generation whose set_catalog has returned
          inflight,    \* generation being published (0 = none): SwapBegin seen, SwapEnd not yet
          pc, snap, secs, beganAt, window
vars == <<shared, committed, inflight, pc, snap, secs, beganAt, window>>
H == 1..Handlers
Init == /\ shared = 1 /\ committed = 1 /\ inflight = 0
        /\ pc = [h \in H |-> "idle"] /\ snap = [h \in H |-> 0] /\ secs = [h \in H |-> <<>>]
        /\ beganAt = [h \in H |-> 0] /\ window = [h \in H |-> {}]

SwapBegin == /\ inflight = 0 /\ shared < MaxGen /\ inflight' = shared + 1
             /\ window' = [h \in H |-> IF pc[h] = "begun" THEN window[h] \cup {shared + 1} ELSE window[h]]
             /\ UNCHANGED <<shared, committed, pc, snap, secs, beganAt>>
SwapWrite == /\ inflight # 0 /\ shared # inflight /\ shared' = inflight
             /\ UNCHANGED <<committed, inflight, pc, snap, secs, beganAt, window>>
SwapEnd == /\ inflight # 0 /\ shared = inflight /\ committed' = inflight /\ inflight' = 0
           /\ UNCHANGED <<shared, pc, snap, secs, beganAt, window>>

Begin(h) == /\ pc[h] = "idle" /\ pc' = [pc EXCEPT ![h] = "begun"]
            /\ beganAt' = [beganAt EXCEPT ![h] = committed]
            /\ window' = [window EXCEPT ![h] = {committed} \cup (IF inflight = 0 THEN {} ELSE {inflight})]
            /\ secs' = [secs EXCEPT ![h] = <<>>]
            /\ UNCHANGED <<shared, committed, inflight, snap>>
Snapshot(h) == /\ pc[h] = "begun" /\ snap' = [snap EXCEPT ![h] = shared] /\ pc' = [pc EXCEPT ![h] = "work"]
               /\ UNCHANGED <<shared, committed, inflight, secs, beganAt, window>>
Section(h) == /\ pc[h] = "work" /\ Len(secs[h]) < 3
              /\ secs' = [secs EXCEPT ![h] = Append(@, IF Variant = "mutant" THEN shared ELSE snap[h])]
              /\ UNCHANGED <<shared, committed, inflight, pc, snap, beganAt, window>>
Finish(h) == /\ pc[h] = "work" /\ Len(secs[h]) = 3 /\ pc' = [pc EXCEPT ![h] = "done"]
             /\ UNCHANGED <<shared, committed, inflight, snap, secs, beganAt, window>>
Again(h) == /\ pc[h] = "done" /\ pc' = [pc EXCEPT ![h] = "idle"]
            /\ UNCHANGED <<shared, committed, inflight, snap, secs, beganAt, window>>
Next == SwapBegin \/ SwapWrite \/ SwapEnd \/ \E h \in H : Begin(h) \/ Snapshot(h) \/ Section(h) \/ Finish(h) \/ Again(h)
Spec == Init /\ [][Next]_vars

OneSnapshot == \A h \in H : pc[h] = "done" => secs[h][1] = secs[h][2] /\ secs[h][2] = secs[h][3]
Fresh == \A h \in H : pc[h] = "done" => \A i \in 1..3 : secs[h][i] >= beganAt[h]
WindowSound == \A h \in H : pc[h] \in {"work", "done"} => snap[h] \in window[h]
====
