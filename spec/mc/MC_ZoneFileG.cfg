CONSTANTS
  Len0 = 2
  Len1 = 2
  Len2 = 1
  MaxDepths = {0, 1, 2}
  Variant = "impl"
  Stride = 250
  Pick = 0
SPECIFICATION Spec
INVARIANTS Equiv Absolute SingleFile Export
CHECK_DEADLOCK FALSE
