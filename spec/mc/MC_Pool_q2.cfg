CONSTANTS
  NPerm = 1
  Linger = TRUE
  Tasks = {1, 2}
  Variant = "fixed"
CONSTANT Kind <- KindMixed
SPECIFICATION Spec
INVARIANTS AtMostOnce AcceptedRanAtAwait AwaitMeansNoThreads RejectedAfterShutdown AvailCoversQueue
PROPERTIES EventuallyAwaited EventuallyAllRan
CHECK_DEADLOCK FALSE
