CONSTANTS
  Len0 = 2
  Len1 = 1
  Len2 = 1
  MaxDepths = {0, 1, 2}
  Variant = "mutant"
SPECIFICATION Spec
INVARIANTS Equiv Absolute SingleFile
CHECK_DEADLOCK FALSE
