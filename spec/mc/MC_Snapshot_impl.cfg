CONSTANTS
  Handlers = 2
  MaxGen = 3
  Variant = "impl"
SPECIFICATION Spec
INVARIANTS OneSnapshot Fresh WindowSound
CHECK_DEADLOCK FALSE
