---- MODULE MCNB ----
EXTENDS MC_NameBuilder
SlicesA == {<<1, 2>>, <<1, 2, 1>>, <<>>}
SuffixesA == {<<>>, <<<<1>>>>, <<<<1, 2>>, <<2>>>>}
====
