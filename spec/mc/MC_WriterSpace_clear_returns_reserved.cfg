CONSTANTS
  BufLen = 140
  QSizes = {5, 9}
  RSizes = {11, 15, 40}
  TsigLens = {74, 80}
  Limits = {0, 12, 30, 57, 100, 120, 140, 200}
  Bufs = {60, 100, 140}
  Variant = "clear_returns_reserved"
SPECIFICATION Spec
INVARIANTS Ordered ReservedKept FinishedFits ReservedUsedExactly
PROPERTY FailureIsNoop
CHECK_DEADLOCK FALSE
