---- MODULE MC_Catalog ----
(* C22, design level: under every history of inserts and removes (any class), the per-class
   trees with pruning store exactly the abstract map, tree lookup = longest-suffix lookup,
   and iteration yields exactly the entries. Variant "as_found" reproduces the unrepaired
   pruning (expected to violate Refines); "fixed" is the repaired rule. *)
EXTENDS Catalog, TLC
CONSTANTS Classes, Kinds, Variant, NameSet
VARIABLES trees,     \* [Classes -> tree]
          abs,       \* abstract map (class, name) -> kind
          last       \* the operation that produced this state (for the graph replay; not part of the VIEW)
vars == <<trees, abs, last>>

Init == /\ trees = [c \in Classes |-> TreeEmpty]
        /\ abs = MapEmpty
        /\ last = <<"init">>

Insert(c, n, k) ==
  /\ trees' = [trees EXCEPT ![c] = TreeInsert(@, n, k)]
  /\ abs' = MapInsert(abs, <<c, n>>, k)
  /\ last' = <<"insert", c, n, k>>
Remove(c, n) ==
  /\ trees' = [trees EXCEPT ![c] = TreeRemove(@, n, Variant)]
  /\ abs' = MapRemove(abs, <<c, n>>)
  /\ last' = <<"remove", c, n>>
Next == \/ \E c \in Classes, n \in NameSet, k \in Kinds : Insert(c, n, k)
        \/ \E c \in Classes, n \in NameSet : Remove(c, n)
Spec == Init /\ [][Next]_vars
View == <<trees, abs>>

Probes == NameSet \cup {<<<<120>>>> \o n : n \in NameSet}       \* every name and "x." below it
Refines == \A c \in Classes, n \in NameSet : TreeGet(trees[c], n) = MapGet(abs, <<c, n>>)
LookupOk == \A c \in Classes, p \in Probes :
              TreeLookupName(trees[c], p) = MapLookupName(abs, c, p)
IterOk == \A c \in Classes : TreeEntries(trees[c]) = {k[2] : k \in {j \in DOMAIN abs : j[1] = c}}
\* structural invariant the pruning is meant to keep: every childless node carries an entry
NoDeadLeaves == \A c \in Classes : \A x \in trees[c].nodes :
                  Children(trees[c].nodes, x) = {} => trees[c].data[x] # None
\* removing one entry never alters another one (action property over the implementation state)
OthersUntouched ==
  [][\A c \in Classes, n \in NameSet :
       (last'[1] = "remove" /\ <<c, n>> # <<last'[2], last'[3]>>) => TreeGet(trees'[c], n) = TreeGet(trees[c], n)]_vars
====
