CONSTANTS
  Variant = "mutant"
  MaxDepth = 2
  MaxRecs = 2
  TypeSet = {1, 2}
SPECIFICATION Spec
INVARIANT Equiv
CHECK_DEADLOCK FALSE
