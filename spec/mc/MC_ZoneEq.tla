---- MODULE MC_ZoneEq ----
(* C06, design level: the recursive tree walk of db/hash_map_tree/zone.rs::lookup_impl
   (node tree built by get_or_create_descendant, referral test before descending,
   wildcard fallback at the closest encloser) returns the same outcome as the declarative
   lookup Zone!LookupBase that the trace specifications use as the oracle, for EVERY zone
   with at most MaxRecs records over the label alphabet and every query name one label
   deeper than the deepest owner, with and without search_below_cuts.
   Names are those of Zone.tla: sequences of labels, leaf first; labels are octet sequences. *)
EXTENDS Zone, FiniteSetsExt, SequencesExt
CONSTANTS MaxDepth, MaxRecs, TypeSet, Variant   \* Variant: "impl" = the code; "mutant" = referral test skipped at the target node (sensitivity control)

LabelSet == {<<97>>, <<98>>, <<42>>}
Apex == <<<<122>>>>                       \* "z."

RECURSIVE NamesUpTo(_)
NamesUpTo(d) == IF d = 0 THEN {Apex}
                ELSE LET P == NamesUpTo(d - 1) IN P \cup {<<lb>> \o n : n \in {m \in P : Len(m) = d}, lb \in LabelSet}
OwnerNames == NamesUpTo(MaxDepth)
QNames == NamesUpTo(MaxDepth + 1)
Universe == {<<o, t>> : o \in OwnerNames, t \in TypeSet}
RecSets == UNION {kSubset(k, Universe) : k \in 0..MaxRecs}
MkZ(S) == [apex |-> Apex, state |-> "loaded", class |-> 1,
           recs |-> SetToSeq({[owner |-> x[1], type |-> x[2], ttl |-> 1, rdata |-> <<>>, raw |-> <<>>] : x \in S})]

\* ---- the implementation: a tree of nodes keyed by label, walked from the apex
Children(z, node) == {n \in Nodes(z) : Len(n) = Len(node) + 1 /\ Suffix(n, Len(node)) = node}
HasChild(z, node, label) == (<<label>> \o node) \in Children(z, node)

RECURSIVE Walk(_, _, _, _, _, _)
Walk(z, node, name, level, sbc, atApex) ==
  IF ~atApex /\ ~sbc /\ RRsetAt(z, node, 2) # <<>> /\ (Variant = "impl" \/ level > 0) THEN [kind |-> "referral", cut |-> node]
  ELSE IF level = 0 THEN [kind |-> "node", node |-> node]
  ELSE LET label == name[level] IN            \* name[level - 1] in the code's 0-based indexing
       IF HasChild(z, node, label) THEN Walk(z, <<label>> \o node, name, level - 1, sbc, FALSE)
       ELSE IF HasChild(z, node, <<42>>) THEN [kind |-> "node", node |-> <<<<42>>>> \o node]
       ELSE [kind |-> "nxdomain"]
LookupImpl(z, name, sbc) == Walk(z, z.apex, name, Len(name) - Len(z.apex), sbc, TRUE)

VARIABLES S, q, sbc
vars == <<S, q, sbc>>
Init == S \in RecSets /\ q \in QNames /\ sbc \in BOOLEAN
Next == UNCHANGED vars
Spec == Init /\ [][Next]_vars

\* NS at a wildcard owner is left undefined by RFC 4592 4.2: excluded
NoNsAtWildcard == \A x \in S : ~(x[2] = 2 /\ Len(x[1]) > 1 /\ x[1][1] = <<42>>)
Equiv == NoNsAtWildcard => LookupImpl(MkZ(S), q, sbc) = LookupBase(MkZ(S), q, sbc)
====
