CONSTANTS
  Classes = {1}
  Kinds = {1, 2}
  Variant = "fixed"
CONSTANT NameSet <- Names6
SPECIFICATION Spec
VIEW View
INVARIANTS Refines LookupOk IterOk NoDeadLeaves
PROPERTY OthersUntouched
CHECK_DEADLOCK FALSE
