---- MODULE MC_ZoneFileG ----
(* (G) for the include machinery: the trees MC_ZoneFile checks are its initial states. Every Stride-th of them (by
   a checksum over the items; Pick selects the residue, so different seeds export different trees) is printed; the
   orchestrator turns the printed values into ND-JSON, `qv zonefile replay` renders each tree as real files
   (file i in its own directory, $INCLUDE paths relative to the including file) and lets the real
   zone_file::fs::Parser follow the includes; TraceZoneFile judges the yield by ZoneFile!ParseTree. The exported trees
   are exactly those on which TLC has just checked Equiv (include stack = textual inclusion). *)
EXTENDS MC_ZoneFile
CONSTANTS Stride, Pick

Code(it) == IF it.k = "origin" THEN (IF it.name = A THEN 1 ELSE 2)
            ELSE IF it.k = "ttl" THEN 3
            ELSE IF it.k = "include" THEN 4 + 2 * it.file + (IF it.horigin THEN 1 ELSE 0)
            ELSE 12 + (IF it.owner.form = "abs" THEN 0 ELSE IF it.owner.form = "rel" THEN 1 ELSE IF it.owner.form = "at" THEN 2 ELSE 3)
RECURSIVE H(_, _)
H(items, i) == IF i > Len(items) THEN 0 ELSE (i * 31 + 7) * Code(items[i]) + H(items, i + 1)
Selected == (H(f0, 1) * 7 + H(f1, 1) * 13 + H(f2, 1) * 3 + md * 5 + Len(f0) + 2 * Len(f1)) % Stride = Pick
Export == Selected => PrintT(<<"TREE", f0, f1, f2, md>>)
====
