CONSTANTS
  NPerm = 0
  Linger = TRUE
  Tasks = {1, 2}
  Variant = "fixed"
CONSTANT Kind <- KindSos
SPECIFICATION Spec
INVARIANTS AtMostOnce AcceptedRanAtAwait AwaitMeansNoThreads RejectedAfterShutdown AvailCoversQueue
PROPERTIES EventuallyAwaited EventuallyAllRan
CHECK_DEADLOCK FALSE
