CONSTANTS
  NPerm = 1
  Linger = FALSE
  Tasks = {1, 2}
  Variant = "fixed"
CONSTANT Kind <- KindSubmit
SPECIFICATION Spec
INVARIANTS AtMostOnce AcceptedRanAtAwait AwaitMeansNoThreads RejectedAfterShutdown AvailCoversQueue
PROPERTIES EventuallyAwaited EventuallyAllRan
CHECK_DEADLOCK FALSE
