---- MODULE MC_ZoneFile ----
(* C25 (and the context rules of C23), design level: for EVERY tree of three files over the item
   alphabet below and every depth limit, the include stack of zone_file/fs/mod.rs (`Drive`: per-file
   contexts, new_for_include, update_context_from_include, depth check) yields exactly what textual
   inclusion with origin save/restore (`ParseFlat`) yields, records and error alike.
   Further invariants state the context rules directly: every yielded owner is absolute and is what
   the *current* origin makes of the owner field; TTL precedence; nothing after an error. *)
EXTENDS ZoneFile
CONSTANTS Len0, Len1, Len2, MaxDepths, Variant

A == <<1, 97, 0>>        \* "a."
B == <<1, 98, 0>>        \* "b."
X == <<1, 120, 0>>       \* "x."
Rec(form, httl, hclass) ==
  [k |-> "rec", owner |-> [form |-> form, labels |-> <<<<114>>>>, name |-> X], httl |-> httl, ttl |-> 5,
   hclass |-> hclass, class |-> 1, type |-> 1, rdata |-> <<0, 0, 0, 1>>, nl |-> 1]
Base == {[k |-> "origin", name |-> A, nl |-> 1], [k |-> "origin", name |-> B, nl |-> 1], [k |-> "ttl", v |-> 9, nl |-> 2],
         Rec("abs", TRUE, TRUE), Rec("rel", FALSE, FALSE), Rec("at", TRUE, FALSE), Rec("blank", FALSE, TRUE)}
Inc(j) == {[k |-> "include", file |-> j, horigin |-> h, origin |-> B, nl |-> 1] : h \in BOOLEAN}
SeqsUpTo(S, n) == UNION {[1..k -> S] : k \in 0..n}

VARIABLES f0, f1, f2, md
vars == <<f0, f1, f2, md>>
Init == /\ f0 \in SeqsUpTo(Base \cup Inc(1) \cup Inc(2) \cup Inc(3), Len0)      \* file 3 does not exist
        /\ f1 \in SeqsUpTo(Base \cup Inc(2), Len1)
        /\ f2 \in SeqsUpTo(Base, Len2)
        /\ md \in MaxDepths
Next == UNCHANGED vars
Spec == Init /\ [][Next]_vars

Files == <<[items |-> f0], [items |-> f1], [items |-> f2]>>

\* sensitivity control: the mutant forgets to restore the includer's origin
DriveResult == IF Variant = "impl" THEN ParseTree(Files, md)
               ELSE LET RECURSIVE D(_, _)
                        D(stack, out) ==
                          IF stack = <<>> THEN [out |-> out, err |-> FALSE]
                          ELSE LET n == Len(stack)  top == stack[n]  items == Files[top.file + 1].items IN
                            IF top.i > Len(items) THEN
                               IF n = 1 THEN [out |-> out, err |-> FALSE]
                               ELSE D([SubSeq(stack, 1, n - 1) EXCEPT ![n - 1].ctx = top.ctx], out)
                            ELSE LET it == items[top.i]
                                     adv == [stack EXCEPT ![n].i = @ + 1, ![n].line = @ + it.nl] IN
                              IF it.k = "include" THEN
                                 IF n - 1 >= md \/ it.file >= Len(Files) THEN [out |-> out, err |-> TRUE]
                                 ELSE D(Append(adv, [file |-> it.file, i |-> 1, line |-> 1,
                                                     ctx |-> IF it.horigin THEN [top.ctx EXCEPT !.origin = Some(it.origin)] ELSE top.ctx]), out)
                              ELSE LET a == ApplyItem(top.ctx, it, top.file, top.line) IN
                                   IF ~a.ok THEN [out |-> out, err |-> TRUE] ELSE D([adv EXCEPT ![n].ctx = a.ctx], out \o a.out)
                    IN D(<<[file |-> 0, i |-> 1, line |-> 1, ctx |-> Ctx0]>>, <<>>)

Equiv == DriveResult = ParseFlat(Files, md)
\* every yielded owner is an absolute (root-terminated) name
Absolute == LET r == DriveResult IN \A i \in 1..Len(r.out) : r.out[i].owner[Len(r.out[i].owner)] = 0
\* without includes the include machinery is the plain single-file machine
SingleFile == (\A i \in 1..Len(f0) : f0[i].k # "include") =>
                LET a == ParseTree(Files, md)  b == RunFile(Ctx0, f0, 1, 1, <<>>) IN a.out = b.out /\ a.err = ~b.ok
====
