---- MODULE MCF ----
EXTENDS MC_Framing
LensA == <<2, 0, 1, 3>>
LensB == <<1, 2, 0, 0, 2>>
====
