CONSTANTS
  MaxWire = 9
  MaxLabel = 3
  Octets = {1, 2}
  Variant = "impl"
CONSTANT Slices <- SlicesA
CONSTANT Suffixes <- SuffixesA
SPECIFICATION Spec
INVARIANTS WithinLimits FinishedValid
PROPERTY FailureIsNoop
CHECK_DEADLOCK FALSE
