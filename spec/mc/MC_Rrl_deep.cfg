CONSTANTS
  Rate = 3
  Window = 3
  K = 5
  Gaps = {0, 1, 4, 5, 6, 11, 160, 100000}
  MaxReq = 14
  Variant = "fixed"
  Mod = 64
SPECIFICATION Spec
INVARIANTS SameDecision SameCount Bounded StepAgrees
CHECK_DEADLOCK FALSE
