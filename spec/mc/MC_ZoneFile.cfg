CONSTANTS
  Len0 = 3
  Len1 = 2
  Len2 = 1
  MaxDepths = {0, 1, 2}
  Variant = "impl"
SPECIFICATION Spec
INVARIANTS Equiv Absolute SingleFile
CHECK_DEADLOCK FALSE
