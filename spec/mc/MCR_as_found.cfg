CONSTANTS
  MaxVersion = 3
  Variant = "as_found"
CONSTANT Zones <- ZonesDef
SPECIFICATION Spec
INVARIANTS ExactlyConfigured Independent
CHECK_DEADLOCK FALSE
