CONSTANTS
  MaxVersion = 3
  Variant = "fixed"
CONSTANT Zones <- ZonesDef
SPECIFICATION Spec
INVARIANTS ExactlyConfigured Independent
CHECK_DEADLOCK FALSE
