---- MODULE MC_Framing ----
(* C30, design level: the TCP read loop of io/blocking.rs / io/tokio.rs (buffer, n_read, cached
   length, leftover moved to the front, close after a response-less message) against the abstract
   stream of length-prefixed messages, for EVERY segmentation of the stream into reads.
   Message i has a body of Lens[i] octets, all equal to i; its response is the body doubled
   (so responses are distinguishable), and messages in NoResp get no response.
   Variant "mutant": the leftover is not moved to the front (sensitivity control). *)
EXTENDS Framing, FiniteSets, TLC
CONSTANTS Lens,         \* sequence of body lengths
          NoResp,       \* set of message indices without a response
          Variant
RECURSIVE Stream(_)
Stream(i) == IF i > Len(Lens) THEN <<>> ELSE <<0, Lens[i]>> \o [k \in 1..Lens[i] |-> i] \o Stream(i + 1)
Wire == Stream(1)
Body(i) == [k \in 1..Lens[i] |-> i]
RespOf(body) == IF body = <<>> THEN <<0>> ELSE body \o body

VARIABLES pos,        \* octets of Wire already delivered by the socket
          buf,        \* octets currently in received_buf[0..n_read]
          cached,     \* received_len_opt: 0 = None, otherwise length + 1
          nmsg,       \* messages handed to the server so far
          sent,       \* octets written to the socket
          closed
vars == <<pos, buf, cached, nmsg, sent, closed>>
Init == pos = 0 /\ buf = <<>> /\ cached = 0 /\ nmsg = 0 /\ sent = <<>> /\ closed = FALSE

HaveLen == cached # 0 \/ Len(buf) >= 2
TheLen == IF cached # 0 THEN cached - 1 ELSE buf[2]
Complete == HaveLen /\ Len(buf) >= TheLen + 2

\* inner loop: not complete -> remember the length if known, then read some octets
Read(k) ==
  /\ ~closed /\ ~Complete /\ k >= 1 /\ pos + k <= Len(Wire)
  /\ cached' = IF Len(buf) >= 2 /\ cached = 0 THEN buf[2] + 1 ELSE cached
  /\ buf' = buf \o SubSeq(Wire, pos + 1, pos + k) /\ pos' = pos + k /\ UNCHANGED <<nmsg, sent, closed>>
\* the client has sent everything and closed its side: read returns 0
Eof == /\ ~closed /\ ~Complete /\ pos = Len(Wire) /\ closed' = TRUE /\ UNCHANGED <<pos, buf, cached, nmsg, sent>>
\* complete: process the message, write the response or close, move the leftover to the front
Process ==
  /\ ~closed /\ Complete
  /\ LET body == SubSeq(buf, 3, TheLen + 2) IN
     /\ nmsg' = nmsg + 1
     /\ body = Body(nmsg + 1)                                   \* the server is handed exactly message nmsg + 1
     /\ IF (nmsg + 1) \in NoResp THEN closed' = TRUE /\ UNCHANGED sent
        ELSE closed' = FALSE /\ sent' = sent \o B16(Len(RespOf(body))) \o RespOf(body)
  /\ buf' = IF Variant = "mutant" THEN <<>> ELSE SubSeq(buf, TheLen + 3, Len(buf))
  /\ cached' = 0 /\ UNCHANGED pos
\* a message that is not message nmsg + 1 would make Process disabled: caught as a deadlock-like stall by Delivered
Next == Process \/ Eof \/ \E k \in 1..Len(Wire) : Read(k)
Spec == Init /\ [][Next]_vars /\ WF_vars(Process) /\ WF_vars(Eof) /\ WF_vars(\E k \in 1..Len(Wire) : Read(k))

Direct == [i \in 1..Len(Lens) |-> IF i \in NoResp THEN <<>> ELSE RespOf(Body(i))]
Exp == ExpectedStream(Direct)
\* what has been written is always a prefix of the expected stream
IsPrefixOf(a, b) == Len(a) <= Len(b) /\ SubSeq(b, 1, Len(a)) = a
PrefixOk == IsPrefixOf(sent, Exp.stream)
\* a complete message in the buffer is always the next one
NextIsRight == (~closed /\ Complete) => SubSeq(buf, 3, TheLen + 2) = Body(nmsg + 1)
Delivered == <>(closed /\ sent = Exp.stream)
====
