---- MODULE Resolve ----
(* The resolution algorithm of server/query.rs (DESIGN.md Appendix B): zone choice,
   lookup, wildcard synthesis, CNAME chase inside the zone (at most 8 links, loops
   are SERVFAIL), referrals with required and optional glue, additional-section
   processing, ANY, negative answers with the apex SOA (TTL = min(TTL, MINIMUM)). *)
EXTENDS Zone

RR(owner, type, ttl, rd) == [owner |-> owner, type |-> type, ttl |-> ttl, rdata |-> rd]
RRsOf(owner, rrset) == [i \in 1..Len(rrset) |-> RR(owner, rrset[i].type, rrset[i].ttl, rrset[i].rdata)]

Empty == [st |-> "ok", rcode |-> 0, aa |-> FALSE, an |-> <<>>, ns |-> <<>>, ar |-> <<>>]
ServFail == [st |-> "servfail", rcode |-> 2, aa |-> FALSE, an |-> <<>>, ns |-> <<>>, ar |-> <<>>]

\* name embedded in stored RDATA at an offset, occupying the rest
NameInRdata(raw, off) ==
  IF off > Len(raw) THEN [ok |-> FALSE] ELSE ParseName(SubSeq(raw, off + 1, Len(raw)))

\* address records for name d (lowercase), as additional RRs
Addrs(z, d, sbc) ==
  LET l == LookupChecked(z, d, sbc) IN
  IF l.kind # "node" THEN <<>>
  ELSE RRsOf(d, RRsetAt(z, l.node, 1)) \o (IF z.class = 1 THEN RRsOf(d, RRsetAt(z, l.node, 28)) ELSE <<>>)

RECURSIVE AddrsForAll(_, _, _)
AddrsForAll(z, names, sbc) ==
  IF names = <<>> THEN <<>> ELSE Addrs(z, Head(names), sbc) \o AddrsForAll(z, Tail(names), sbc)

AddlOffset(t) == IF t \in {2, 3, 4, 7} THEN 0 ELSE IF t = 15 THEN 2 ELSE IF t = 33 THEN 6 ELSE 99

\* additional-section processing for an answered rrset; returns [ok, ar]
Additional(z, t, rrset) ==
  IF ~(z.class \in {1, 3}) \/ AddlOffset(t) = 99 THEN [ok |-> TRUE, ar |-> <<>>]
  ELSE LET parsed == [i \in 1..Len(rrset) |-> NameInRdata(rrset[i].raw, AddlOffset(t))] IN
       IF \E i \in 1..Len(rrset) : ~parsed[i].ok THEN [ok |-> FALSE]
       ELSE [ok |-> TRUE, ar |-> AddrsForAll(z, [i \in 1..Len(rrset) |-> LowerName(parsed[i].name)], FALSE)]

SoaMinimum(raw) ==          \* [ok, hi, lo]
  LET m == ParseNamePrefix(raw) IN
  IF ~m.ok THEN [ok |-> FALSE] ELSE
  LET rest == SubSeq(raw, m.first + 1, Len(raw))
      r == ParseNamePrefix(rest) IN
  IF ~r.ok \/ Len(rest) # r.first + 20 THEN [ok |-> FALSE]
  ELSE [ok |-> TRUE, hi |-> U16(rest, r.first + 16), lo |-> U16(rest, r.first + 18)]

\* SoaTtlRule = "min" (RFC 2308, fixed) or "minimum" (as found)
NegSoa(z, rule) ==
  LET soa == RRsetAt(z, z.apex, 6) IN
  IF soa = <<>> THEN [ok |-> FALSE]
  ELSE LET m == SoaMinimum(soa[1].raw) IN
    IF ~m.ok THEN [ok |-> FALSE]
    ELSE LET minimum == IF m.hi >= 32768 THEN 0 ELSE m.hi * 65536 + m.lo
             ttl == IF rule = "min" THEN Min(soa[1].ttl, minimum) ELSE minimum
         IN [ok |-> TRUE, ns |-> <<RR(z.apex, 6, ttl, soa[1].rdata)>>]

Refer(z, cut, base) ==
  LET ns == RRsetAt(z, cut, 2)
      parsed == [i \in 1..Len(ns) |-> NameInRdata(ns[i].raw, 0)] IN
  IF \E i \in 1..Len(ns) : ~parsed[i].ok THEN ServFail
  ELSE LET names == [i \in 1..Len(ns) |-> LowerName(parsed[i].name)]
           req == SelectSeq(names, LAMBDA d : IsSuffix(cut, d))
           opt == SelectSeq(names, LAMBDA d : ~IsSuffix(cut, d))
       IN [base EXCEPT !.ns = RRsOf(cut, ns),
                       !.ar = AddrsForAll(z, req, TRUE) \o AddrsForAll(z, opt, TRUE),
                       !.glue = AddrsForAll(z, req, TRUE)]

WithNeg(z, base, rule) ==
  LET n == NegSoa(z, rule) IN IF ~n.ok THEN ServFail ELSE [base EXCEPT !.ns = n.ns]

Base0 == [st |-> "ok", rcode |-> 0, aa |-> FALSE, an |-> <<>>, ns |-> <<>>, ar |-> <<>>, glue |-> <<>>]

\* CNAME chase: owner = current owner (lowercase), cn = CNAME rrset found there, seen = previous targets
RECURSIVE Chase(_, _, _, _, _, _, _, _)
Chase(z, qname, qtype, owner, cn, seen, acc, rule) ==
  LET t == NameInRdata(cn[1].raw, 0) IN
  IF ~t.ok THEN ServFail
  ELSE LET target == LowerName(t.name) IN
    IF target = qname \/ target \in Range(seen) THEN ServFail
    ELSE LET acc1 == [acc EXCEPT !.an = @ \o <<RR(owner, 5, cn[1].ttl, cn[1].rdata)>>]
             l == LookupChecked(z, target, FALSE) IN
      IF l.kind = "wrongzone" THEN acc1
      ELSE IF l.kind = "referral" THEN Refer(z, l.cut, acc1)
      ELSE IF l.kind = "nxdomain" THEN WithNeg(z, [acc1 EXCEPT !.rcode = 3], rule)
      ELSE LET found == RRsetAt(z, l.node, qtype)
               next == RRsetAt(z, l.node, 5) IN
        IF found # <<>> THEN
           LET a == Additional(z, qtype, found) IN
           IF ~a.ok THEN ServFail
           ELSE [acc1 EXCEPT !.an = @ \o RRsOf(target, found), !.ar = a.ar]
        ELSE IF next # <<>> THEN
           IF Len(seen) < 7 THEN Chase(z, qname, qtype, target, next, Append(seen, target), acc1, rule)
           ELSE ServFail
        ELSE WithNeg(z, acc1, rule)

Typed(z, qname, qtype, rule) ==
  LET l == LookupBase(z, qname, FALSE) IN
  IF l.kind = "referral" THEN Refer(z, l.cut, Base0)
  ELSE IF l.kind = "nxdomain" THEN WithNeg(z, [Base0 EXCEPT !.rcode = 3, !.aa = TRUE], rule)
  ELSE LET found == RRsetAt(z, l.node, qtype)
           cn == RRsetAt(z, l.node, 5) IN
    IF found # <<>> THEN
       LET a == Additional(z, qtype, found) IN
       IF ~a.ok THEN ServFail
       ELSE [Base0 EXCEPT !.aa = TRUE, !.an = RRsOf(qname, found), !.ar = a.ar]
    ELSE IF cn # <<>> THEN Chase(z, qname, qtype, qname, cn, <<>>, [Base0 EXCEPT !.aa = TRUE], rule)
    ELSE WithNeg(z, [Base0 EXCEPT !.aa = TRUE], rule)

AnyQ(z, qname, rule) ==
  LET l == LookupBase(z, qname, FALSE) IN
  IF l.kind = "referral" THEN Refer(z, l.cut, Base0)
  ELSE IF l.kind = "nxdomain" THEN WithNeg(z, [Base0 EXCEPT !.rcode = 3, !.aa = TRUE], rule)
  ELSE LET all == SelectSeq(z.recs, LAMBDA r : r.owner = l.node) IN
    IF all = <<>> THEN WithNeg(z, [Base0 EXCEPT !.aa = TRUE], rule)
    ELSE [Base0 EXCEPT !.aa = TRUE, !.an = RRsOf(qname, all)]

Answer(cat, qname, qtype, qclass, rule) ==
  IF qtype \in {251, 252, 253, 254} \/ qclass = 255 THEN [Base0 EXCEPT !.rcode = 4] @@ [disp |-> TRUE]
  ELSE LET i == CatLookup(cat, qname, qclass) IN
    IF i = 0 THEN [Base0 EXCEPT !.rcode = 5] @@ [disp |-> TRUE]
    ELSE IF cat[i].state # "loaded" THEN [Base0 EXCEPT !.rcode = 2] @@ [disp |-> TRUE]
    ELSE IF qtype = 255 THEN AnyQ(cat[i], qname, rule)
    ELSE Typed(cat[i], qname, qtype, rule)
====
