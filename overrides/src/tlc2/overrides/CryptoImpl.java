package tlc2.overrides;

import javax.crypto.Mac;
import javax.crypto.spec.SecretKeySpec;
import tlc2.value.impl.IntValue;
import tlc2.value.impl.StringValue;
import tlc2.value.impl.TupleValue;
import tlc2.value.impl.Value;
import util.UniqueString;

/**
 * Java implementations of two operators of the quandary specification that
 * TLA+ cannot express usefully itself:
 *   Crypto!HMAC(alg, key, data)  -- HMAC-SHA1 / HMAC-SHA256 from the JDK
 *   Bytes!Octets(str)            -- string literal to sequence of octets
 *   Bytes!StrOf(octets)          -- sequence of (ASCII) octets to string
 */
public class CryptoImpl {
  private static byte[] toBytes(Value v) {
    TupleValue t = (TupleValue) v.toTuple();
    byte[] b = new byte[t.size()];
    for (int i = 0; i < b.length; i++) b[i] = (byte) ((IntValue) t.elems[i]).val;
    return b;
  }

  @TLAPlusOperator(identifier = "HMAC", module = "Crypto", warn = false)
  public static Value hmac(final StringValue alg, final Value key, final Value data) throws Exception {
    String a = alg.val.toString().equals("sha1") ? "HmacSHA1" : "HmacSHA256";
    Mac mac = Mac.getInstance(a);
    byte[] k = toBytes(key);
    // javax.crypto rejects empty keys; HMAC with an empty key equals HMAC with a zero-padded key
    mac.init(new SecretKeySpec(k.length == 0 ? new byte[1] : k, a));
    byte[] out = mac.doFinal(toBytes(data));
    Value[] vs = new Value[out.length];
    for (int i = 0; i < out.length; i++) vs[i] = IntValue.gen(out[i] & 0xff);
    return new TupleValue(vs);
  }

  @TLAPlusOperator(identifier = "Octets", module = "Bytes", warn = false)
  public static Value octets(final StringValue s) {
    byte[] b = s.val.toString().getBytes(java.nio.charset.StandardCharsets.ISO_8859_1);
    Value[] vs = new Value[b.length];
    for (int i = 0; i < b.length; i++) vs[i] = IntValue.gen(b[i] & 0xff);
    return new TupleValue(vs);
  }

  @TLAPlusOperator(identifier = "StrOf", module = "Bytes", warn = false)
  public static Value strOf(final Value v) {
    byte[] b = toBytes(v);
    return new StringValue(UniqueString.uniqueStringOf(new String(b, java.nio.charset.StandardCharsets.ISO_8859_1)));
  }
}
