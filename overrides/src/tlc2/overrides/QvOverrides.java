package tlc2.overrides;

public class QvOverrides implements ITLCOverrides {
  @SuppressWarnings("rawtypes")
  public Class[] get() {
    return new Class[] {CryptoImpl.class};
  }
}
